#!/bin/bash
# runs every claimed quick check on /repo; prints one line per property
for p in $(python3 -c "import json;print(' '.join(sorted(json.load(open('/verif/tools/claims.json')).keys())))"); do
  /verif/bin/gocv check --property $p --no-evidence 2>&1 | grep "FAIL\|ENGINE\|MISSING\|property=" | cut -c1-220
done
