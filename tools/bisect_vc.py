#!/usr/bin/env python3
# usage: bisect_vc.py <vc.smt2> : which single assertions are needed for the unsat answer (delete-one)
import subprocess, concurrent.futures, sys, os
lines=open(sys.argv[1]).read().split('\n')
idx=[i for i,l in enumerate(lines) if l.startswith('(assert') and 'forall ((a ' not in l and 'forall ((s ' not in l]
def run(i):
    t=[l for j,l in enumerate(lines) if j!=i]
    fn='/var/tmp/bis_%d_%d.smt2'%(os.getpid(),i)
    open(fn,'w').write('\n'.join(t))
    try:
        r=subprocess.run(['z3','-T:10',fn],capture_output=True,text=True,timeout=14).stdout.split('\n')[0]
    except Exception as e: r='timeout'
    os.remove(fn)
    return i,r
base=subprocess.run(['z3','-T:20',sys.argv[1]],capture_output=True,text=True).stdout.split('\n')[0]
print('base:',base)
with concurrent.futures.ThreadPoolExecutor(12) as ex:
    for i,r in ex.map(run,idx):
        if r!='unsat': print(i,r,lines[i][:int(sys.argv[2]) if len(sys.argv)>2 else 300]); print()
