#!/bin/bash
# usage: seedtest.sh <property> <patch.diff> [only]
# Applies a patch to a scratch worktree of /repo, runs the quick check there. Expected: exit 1.
set -u
P=$1; PATCH=$2; ONLY=${3:-}
WT=/var/tmp/gocv-seed-$$
git -C /repo worktree add -q $WT HEAD || exit 2
if ! git -C $WT apply "$PATCH"; then echo "PATCH DID NOT APPLY"; git -C /repo worktree remove --force $WT; exit 2; fi
if [ -n "$ONLY" ]; then /verif/bin/gocv check --property $P --no-evidence --repo $WT --only "$ONLY" 2>&1 | grep -v "^  ok" | tail -${TAIL:-8}
else /verif/bin/gocv check --property $P --no-evidence --repo $WT 2>&1 | grep -v "^  ok" | tail -${TAIL:-8}; fi
rc=${PIPESTATUS[0]}
git -C /repo worktree remove --force $WT
exit $rc
