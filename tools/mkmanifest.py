#!/usr/bin/env python3
# Regenerates /verif/MANIFEST.json from the table below (claimed checks) and properties.jsonl.
import json, subprocess
CLAIMS = json.load(open('/verif/tools/claims.json'))
props = [json.loads(l) for l in open('/verif/properties.jsonl')]
hooks_commits = [l.split()[0] for l in subprocess.run(['git','-C','/repo','log','--format=%h %s'],capture_output=True,text=True).stdout.splitlines() if l.split(' ',1)[1].startswith('verif:')]
m = {
 "version": 1,
 "setup_cmd": "cd /verif/gocv && GOFLAGS=-mod=mod GOPROXY=off GOSUMDB=off GOTOOLCHAIN=local go1.26.8 build -o /verif/bin/gocv .",
 "hooks": {
  "guard": "verif",
  "enable": "no hooks: the contracts are plain text under /verif/contracts/*.gocv keyed by package, function and loop ordinal; nothing in /repo is behind the verif tag and the checks build /repo exactly as it is (go/packages with -tags verif, which selects no file)",
  "baseline_off_cmd": "for m in $(cat /w/out/gomods.txt); do MF=$(cd /repo/$m && . /w/out/goenv.sh && gomodflag); (cd /repo/$m && go test $MF -json -vet=off -count=1 -timeout 25m ./...); done",
  "source_commits": hooks_commits,
  "add_only": True
 },
 "engines": [{"name": "gocv", "path": "/verif/gocv", "serves_properties": sorted(CLAIMS.keys()),
   "kind_free_text": "contract-based deductive verifier for Go written for this task: VC generation by symbolic execution of the typed AST of /repo's current tree (go/packages + go/types; heap model with per-field maps, loop invariants, frames, ghost state), contracts in /verif/contracts/*.gocv, obligations discharged by a z3 4.8.12 / z3 5.1.0 / cvc5 1.0.3 portfolio; a failed obligation is reported by name with the solver output (and its model of the inputs where it gave one) and the per-property batteries of in-package tests registered in replay/harness.json are run against the tree under check through go test -overlay; when one fails, the violation is reported as reproduced on the real code with the failing input printed by the test"}],
 "checks": [], "not_applicable": [],
 "notes": "See DESIGN.md. Every check re-parses /repo's working tree on every run; known_findings.json lists genuine defects (none open) and fixed ones."
}
for p in props:
    pid = p['id']
    if pid in CLAIMS:
        c = CLAIMS[pid]
        m["checks"].append({
          "property_id": pid,
          "quick_cmd": "/verif/bin/gocv check --property %s --tier quick" % pid,
          "thorough_cmd": "/verif/bin/gocv check --property %s --tier thorough" % pid,
          "evidence_file": "/verif/evidence/%s.json" % pid,
          "replay_cmd_template": "/verif/bin/gocv replay {path}",
          "engine": "gocv",
          "level_claimed": {"category": "proof", "text": c["text"], "design_ref": c.get("ref", "DESIGN.md §5 " + pid)},
          "level_note": c["note"],
          "technique": "contract-based deductive verification of the real code (requires/ensures/invariants on /repo functions, own VC generator, SMT portfolio)"})
    else:
        na = json.load(open('/verif/tools/not_applicable.json'))
        m["not_applicable"].append({"property_id": pid, "reason": na.get(pid, "contracts for this property are not built yet; nothing is claimed")})
json.dump(m, open('/verif/MANIFEST.json','w'), indent=1)
print("claimed:", sorted(CLAIMS.keys()))
