#!/bin/bash
# usage: confirm_seed.sh <property> <src-dir with patch.diff demo_test.go meta.json> <seed-id>
# Confirms in a scratch worktree: demo passes clean; with patch: builds, demo fails, full suite passes.
# On success stores /verif/seeded/<seed-id>/{patch.diff,demo_test.go,meta.json}.
set -u
P=$1; SRC=$2; ID=$3
export GOFLAGS=-mod=mod GOPROXY=off GOSUMDB=off GOTOOLCHAIN=local
GO=/root/go/pkg/mod/golang.org/toolchain@v0.0.1-go1.25.0.linux-amd64/bin/go
WT=/var/tmp/gocv-confirm-$$
git -C /repo worktree add -q $WT HEAD || exit 2
trap "git -C /repo worktree remove --force $WT" EXIT
PLACE=$(python3 -c "import json;print(json.load(open('$SRC/meta.json'))['demo_place_in'])")
PLACE=${PLACE%/}
RACE=$(python3 -c "import json;print('-race' if '-race' in json.load(open('$SRC/meta.json')).get('demo_run','') else '')")
RUNPAT=$(grep -o 'func Test[A-Za-z0-9_]*' $SRC/demo_test.go | sed 's/func //' | paste -sd'|')
cp $SRC/demo_test.go $WT/$PLACE/zz_demo_seed_test.go
(cd $WT && $GO test $RACE -vet=off -count=1 -run "^($RUNPAT)\$" ./$PLACE/ >/tmp/confirm_$ID.clean 2>&1); CLEAN=$?
git -C $WT apply $SRC/patch.diff || { echo "$ID: patch does not apply"; exit 1; }
(cd $WT && $GO build ./... >/tmp/confirm_$ID.build 2>&1); BUILD=$?
(cd $WT && $GO test $RACE -vet=off -count=1 -run "^($RUNPAT)\$" ./$PLACE/ >/tmp/confirm_$ID.mut 2>&1); MUT=$?
rm -f $WT/$PLACE/zz_demo_seed_test.go
(cd $WT && $GO test -vet=off -count=1 ./... >/tmp/confirm_$ID.suite 2>&1); SUITE=$?
echo "$ID: demo_clean_rc=$CLEAN build_rc=$BUILD demo_mutated_rc=$MUT suite_with_change_rc=$SUITE"
if [ $CLEAN -eq 0 ] && [ $BUILD -eq 0 ] && [ $MUT -ne 0 ] && [ $SUITE -eq 0 ]; then
  mkdir -p /verif/seeded/$ID
  cp $SRC/patch.diff $SRC/demo_test.go /verif/seeded/$ID/
  python3 - <<PY
import json
m=json.load(open('$SRC/meta.json'))
m['property']='$P'
m['confirmed']={'demo_passes_on_clean_tree':True,'builds_with_change':True,'demo_fails_with_change':True,'full_suite_passes_with_change':True,
 'commands':['go test -run <demo> ./$PLACE/ (clean)','git apply patch.diff','go build ./...','go test -run <demo> ./$PLACE/ (changed)','go test -vet=off -count=1 ./... (changed, demo removed)']}
json.dump(m,open('/verif/seeded/$ID/meta.json','w'),indent=1)
PY
  echo "$ID: CONFIRMED"
else
  echo "$ID: NOT CONFIRMED"; tail -5 /tmp/confirm_$ID.clean /tmp/confirm_$ID.mut | head -30
fi
