#!/bin/bash
# usage: run_replay.sh <repo> <pkgdir> <testfile> <TestName> [-race]
# Runs an in-package replay test against the given tree via `go test -overlay` (no file is written into the tree).
set -u
REPO=$1; PKG=$2; TF=$3; TN=$4; RACE=${5:-}
export GOFLAGS=-mod=mod GOPROXY=off GOSUMDB=off GOTOOLCHAIN=local
GO=/root/go/pkg/mod/golang.org/toolchain@v0.0.1-go1.25.0.linux-amd64/bin/go
OV=$(mktemp /var/tmp/gocv-ov-XXXXXX.json)
printf '{"Replace": {"%s/%s/zz_gocv_replay_test.go": "%s"}}' "$REPO" "$PKG" "$TF" > $OV
(cd $REPO && ulimit -v 8000000 && $GO test $RACE -overlay $OV -vet=off -count=1 -timeout 120s -run "^${TN}\$" ./$PKG/ 2>&1)
rc=$?
rm -f $OV
exit $rc
