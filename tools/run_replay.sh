#!/bin/bash
# usage: run_replay.sh <repo> <pkgdir> <testfile> <TestName> [-race]
# Runs an in-package replay test against the given tree via `go test -overlay` (no file is written into the tree).
set -u
REPO=$1; PKG=$2; TF=$3; TN=$4; RACE=${5:-}
export GOFLAGS=-mod=mod GOPROXY=off GOSUMDB=off GOTOOLCHAIN=local
GO=/root/go/pkg/mod/golang.org/toolchain@v0.0.1-go1.25.0.linux-amd64/bin/go
OV=$(mktemp /var/tmp/gocv-ov-XXXXXX.json)
# TF may be a comma-separated list of test files (all overlaid into the package)
python3 - "$REPO" "$PKG" "$TF" > $OV <<'PY'
import json,sys
repo,pkg,tfs=sys.argv[1:4]
rep={}
for i,tf in enumerate(tfs.split(',')):
    name='zz_gocv_replay_test.go' if i==0 else 'zz_gocv_replay_%d_test.go'%i
    rep['%s/%s/%s'%(repo,pkg,name)]=tf
print(json.dumps({"Replace":rep}))
PY
(cd $REPO && ulimit -v 8000000 && $GO test $RACE -overlay $OV -vet=off -count=1 -timeout 120s -run "^${TN}\$" ./$PKG/ 2>&1)
rc=$?
rm -f $OV
exit $rc
