#!/bin/bash
# usage: muttest.sh <property> <file> <sed-expr> [only]
# Applies a sed mutation to a scratch worktree of /repo and runs the check on it. Must FAIL.
set -u
P=$1; F=$2; E=$3; ONLY=${4:-}
WT=/var/tmp/gocv-mut-$$
git -C /repo worktree add -q $WT HEAD || exit 2
sed -i "$E" $WT/$F
if git -C $WT diff --quiet; then echo "MUTATION DID NOT APPLY"; git -C /repo worktree remove --force $WT; exit 2; fi
git -C $WT diff | grep '^[-+]' | grep -v '^\(---\|+++\)'
export GOFLAGS=-mod=mod GOPROXY=off GOSUMDB=off GOTOOLCHAIN=local
(cd $WT && /root/go/pkg/mod/golang.org/toolchain@v0.0.1-go1.25.0.linux-amd64/bin/go build ./$(dirname $F)/ 2>&1 | head -5)
if [ -n "$ONLY" ]; then /verif/bin/gocv check --property $P --no-evidence --repo $WT --only "$ONLY" 2>&1 | grep -v "^  ok" | tail -8
else /verif/bin/gocv check --property $P --no-evidence --repo $WT 2>&1 | grep -v "^  ok" | tail -8; fi
git -C /repo worktree remove --force $WT
