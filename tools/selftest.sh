#!/bin/bash
# Must-fail corpus: every case (a sed mutation of a scratch copy of /repo, or a seeded patch) has to make
# the check of its property fail. Usage: selftest.sh [property]   (scratch copies live under /var/tmp)
FILTER=${1:-}
fail=0; n=0
while IFS=$'\t' read -r P F E ONLY; do
  [ -z "$P" ] && continue
  [ -n "$FILTER" ] && [ "$P" != "$FILTER" ] && continue
  n=$((n+1))
  out=$(/verif/tools/muttest.sh "$P" "$F" "$E" "$ONLY" 2>&1)
  if echo "$out" | grep -q "^VIOLATION property=$P"; then echo "caught  $P $F $E"; else echo "MISSED  $P $F $E"; echo "$out" | tail -5; fail=1; fi
done < /verif/selftest/cases.tsv
for d in /verif/seeded/*/; do
  id=$(basename $d); P=${id%%_*}
  [ -n "$FILTER" ] && [ "$P" != "$FILTER" ] && continue
  grep -q "\"$P\"" /verif/tools/claims.json || continue
  n=$((n+1))
  out=$(TAIL=200 /verif/tools/seedtest.sh $P $d/patch.diff 2>&1)
  if echo "$out" | grep -q "^VIOLATION property=$P"; then echo "caught  seeded $id"; else echo "MISSED  seeded $id"; echo "$out" | tail -3; fail=1; fi
done
echo "selftest: $n cases, missed=$fail"
exit $fail
