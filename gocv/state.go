package main

// Symbolic state: values, pointers, heap maps, allocation, merge, havoc.

import (
	"go/ast"
	"fmt"
	"go/types"
	"math/big"
	"sort"
	"strings"
)

type Pointer struct {
	Base     *Term      // reference (Int) of the enclosing heap object; 0 = nil
	OwnerKey string     // heap key prefix of the struct type at Base, when Path != nil
	Path     []string   // field path inside the owner struct
	Idx      *Term      // element index inside the array designated by Base/Path
	ArrT     types.Type // array type designated by Base/Path when Idx != nil
	EPath    []string   // field path inside the (struct) element selected by Idx
}

func (p *Pointer) simple() bool { return len(p.Path) == 0 && p.Idx == nil && len(p.EPath) == 0 }

type Value struct {
	T  types.Type
	Tm *Term    // scalar / array / slice / ref
	P  *Pointer // pointer values
	Fs []*Value // struct values (one per field, in fieldsOf order)
}

func (v *Value) term() *Term {
	if v.Tm != nil {
		return v.Tm
	}
	if v.P != nil {
		if !v.P.simple() {
			panic(engErr("interior pointer used as a plain reference"))
		}
		return v.P.Base
	}
	panic(engErr("struct value used as a term"))
}

type EngineError struct{ Msg string }

func (e *EngineError) Error() string { return e.Msg }
func engErr(f string, a ...any) *EngineError {
	return &EngineError{Msg: fmt.Sprintf(f, a...)}
}

type State struct {
	guard     *Term
	env       map[types.Object]*Value
	heap      map[string]*Term
	allocBase *Term
	allocK    int64
	wlog      *WriteLog
	defers    []*ast.CallExpr // deferred plain calls registered on this path (run in reverse order at return)
}

type heapWrite struct {
	key   string
	ref   *Term // nil: unknown / whole map
	guard *Term
}

type WriteLog struct {
	vars   map[types.Object]bool
	heap   []heapWrite
	allocs bool
	parent *WriteLog
}

var heapSorts = map[string]*Sort{}
var heapInitHook func(key string, m *Term)

func (s *State) clone() *State {
	n := &State{guard: s.guard, allocBase: s.allocBase, allocK: s.allocK, wlog: s.wlog}
	n.defers = append([]*ast.CallExpr{}, s.defers...)
	n.env = make(map[types.Object]*Value, len(s.env))
	for k, v := range s.env {
		n.env[k] = v
	}
	n.heap = make(map[string]*Term, len(s.heap))
	for k, v := range s.heap {
		n.heap[k] = v
	}
	return n
}

func (s *State) allocTop() *Term { return Add(s.allocBase, IntLit(s.allocK)) }

func (s *State) hget(key string, srt *Sort) *Term {
	if t, ok := s.heap[key]; ok {
		return t
	}
	if old, ok := heapSorts[key]; ok && old != srt {
		panic(engErr("heap key %s used at sorts %s and %s", key, old, srt))
	}
	heapSorts[key] = srt
	t := Var(key+"@0", srt)
	s.heap[key] = t
	if heapInitHook != nil {
		heapInitHook(key, t)
	}
	return t
}

func (s *State) hset(key string, t *Term, ref *Term) {
	heapSorts[key] = t.S
	s.heap[key] = t
	for w := s.wlog; w != nil; w = w.parent {
		w.heap = append(w.heap, heapWrite{key, ref, s.guard})
	}
}

func (s *State) setVar(o types.Object, v *Value) {
	if old, ok := s.env[o]; ok && old != nil && v != nil && sameValue(old, v) {
		s.env[o] = v
		return // re-assignment of the same value (e.g. x = x.Add(...)): not a modification
	}
	s.env[o] = v
	for w := s.wlog; w != nil; w = w.parent {
		w.vars[o] = true
	}
}

// ---------- struct layout ----------

type fieldDesc struct {
	Name string
	T    types.Type
	S    *Sort // only for ghost-override fields
}

func (x *Exec) fieldsOf(t types.Type) ([]fieldDesc, string) {
	t = types.Unalias(t)
	if o, q := x.eng.override(t); o != nil {
		var fs []fieldDesc
		for i, n := range o.Fields {
			fs = append(fs, fieldDesc{Name: n, S: o.Sorts[i]})
		}
		return fs, q
	}
	st, ok := t.Underlying().(*types.Struct)
	if !ok {
		panic(engErr("fieldsOf non-struct %s", t))
	}
	key := ""
	if n, ok := t.(*types.Named); ok {
		key = qualName(n)
	} else {
		key = types.TypeString(t, func(p *types.Package) string { return relPkg(p.Path()) })
	}
	var fs []fieldDesc
	for i := 0; i < st.NumFields(); i++ {
		f := st.Field(i)
		fs = append(fs, fieldDesc{Name: f.Name(), T: f.Type()})
	}
	return fs, key
}

func (x *Exec) isStruct(t types.Type) bool {
	if t == nil {
		return false
	}
	if o, _ := x.eng.override(t); o != nil {
		return len(o.Sorts) != 1
	}
	return isStructVal(t)
}

func (x *Exec) sortOf(t types.Type) *Sort {
	s, ok := x.eng.sortOf(t, x.bv)
	if !ok {
		panic(engErr("no SMT sort for Go type %s", t))
	}
	return s
}

// ---------- memory access ----------

func (x *Exec) elemKey(es *Sort, et types.Type) (string, *Sort) {
	return "E!" + es.String() + refTag(et), ArrS(IntS, ArrS(IntS, es))
}

func refTag(t types.Type) string {
	if t != nil && isRefLike(t) {
		return "!Ref"
	}
	return ""
}

func arrElemType(t types.Type) types.Type {
	if t == nil {
		return nil
	}
	if at, ok := types.Unalias(t).Underlying().(*types.Array); ok {
		return at.Elem()
	}
	return nil
}

// load reads the value of Go type t designated by p.
func (x *Exec) load(st *State, p *Pointer, t types.Type) *Value {
	if p.Idx != nil && len(p.EPath) > 0 {
		if x.isStruct(t) {
			return x.loadStructElem(st, p, t, p.EPath)
		}
		srt := x.sortOf(t)
		k, ks := x.structElemKey(p.OwnerKey, p.EPath, srt, t)
		tm := Select(Select(st.hget(k, ks), p.Base), p.Idx)
		v := x.typed(t, tm)
		x.assumeAllocated(st, t, tm)
		return v
	}
	if p.Idx != nil && x.isStruct(t) {
		if len(p.Path) != 0 {
			panic(engErr("array of struct values inside a struct not supported (%s)", t))
		}
		return x.loadStructElem(st, p, t, nil)
	}
	if p.Idx != nil {
		arr := x.load(st, &Pointer{Base: p.Base, OwnerKey: p.OwnerKey, Path: p.Path}, p.ArrT)
		return x.typed(t, Select(arr.Tm, p.Idx))
	}
	if x.isStruct(t) {
		fs, key := x.fieldsOf(t)
		v := &Value{T: t, Fs: []*Value{}}
		for _, f := range fs {
			fp := &Pointer{Base: p.Base, OwnerKey: p.OwnerKey, Path: p.Path}
			if len(p.Path) == 0 {
				fp.OwnerKey = key
			}
			fp.Path = append(append([]string{}, p.Path...), f.Name)
			if f.S != nil {
				v.Fs = append(v.Fs, &Value{Tm: x.loadRaw(st, fp, f.S, nil)})
			} else {
				v.Fs = append(v.Fs, x.load(st, fp, f.T))
			}
		}
		return v
	}
	srt := x.sortOf(t)
	tm := x.loadRaw(st, p, srt, t)
	v := x.typed(t, tm)
	// whatever is read from memory now exists now
	if x.allocSeen == nil {
		x.allocSeen = map[[2]*Term]bool{}
	}
	if !x.allocSeen[[2]*Term{tm, st.allocTop()}] && (tm.Op == "select" || tm.Op == "var") {
		x.allocSeen[[2]*Term{tm, st.allocTop()}] = true
		x.assumeAllocated(st, t, tm)
	}
	return v
}

func (x *Exec) locKey(p *Pointer, srt *Sort, t types.Type) (string, *Sort) {
	if len(p.Path) > 0 {
		tag := refTag(t)
		if et := arrElemType(t); et != nil {
			tag = refTag(et)
		}
		return "F!" + p.OwnerKey + "!" + strings.Join(p.Path, ".") + tag, ArrS(IntS, srt)
	}
	if srt.K == KArr && srt.Dom == IntS {
		return x.elemKey(srt.Rng, arrElemType(t))
	}
	return "B!" + srt.String() + refTag(t), ArrS(IntS, srt)
}

func (x *Exec) loadRaw(st *State, p *Pointer, srt *Sort, t types.Type) *Term {
	k, ks := x.locKey(p, srt, t)
	return Select(st.hget(k, ks), p.Base)
}

// typed wraps a term loaded from memory as a Value of Go type t, adding the
// implicit range / allocation facts of that type.
func (x *Exec) typed(t types.Type, tm *Term) *Value {
	v := &Value{T: t, Tm: tm}
	if t != nil && isPointer(t) {
		v = &Value{T: t, P: &Pointer{Base: tm}}
	}
	x.assumeTyped(t, tm)
	return v
}

func (x *Exec) assumeTyped(t types.Type, tm *Term) {
	if t == nil || tm.IsLit() || x.typedSeen[tm] {
		return
	}
	if tm.Op != "select" && tm.Op != "var" && tm.Op != "s-arr" {
		return
	}
	x.typedSeen[tm] = true
	if tm.S == IntS {
		if ii, ok := intTypeInfo(t); ok && ii.w > 0 {
			lo, hi := intRange(ii)
			x.vc.assume(And(Le(IntLitB(lo), tm), Le(tm, IntLitB(hi))))
		} else if isRefLike(t) {
			x.vc.assume(Ge(tm, IntLit(0)))
		}
	}
	if tm.S == SliceS {
		x.vc.assume(And(Ge(SLen(tm), IntLit(0)), Ge(SOff(tm), IntLit(0)), Ge(SArr(tm), IntLit(0)), Ge(SCap(tm), SLen(tm)),
			Implies(Eq(SArr(tm), IntLit(0)), Eq(SCap(tm), IntLit(0)))))
	}
}

func intRange(ii intInfo) (*big.Int, *big.Int) {
	one := big.NewInt(1)
	if ii.signed {
		h := new(big.Int).Lsh(one, uint(ii.w-1))
		return new(big.Int).Neg(h), new(big.Int).Sub(h, one)
	}
	return big.NewInt(0), new(big.Int).Sub(new(big.Int).Lsh(one, uint(ii.w)), one)
}

func (x *Exec) store(st *State, p *Pointer, t types.Type, v *Value) {
	if p.Idx != nil && len(p.EPath) > 0 {
		if x.isStruct(t) {
			x.storeStructElem(st, p, t, p.EPath, v)
			return
		}
		srt := x.sortOf(t)
		k, ks := x.structElemKey(p.OwnerKey, p.EPath, srt, t)
		m := st.hget(k, ks)
		inner := Store(Select(m, p.Base), p.Idx, x.coerce(v, t).term())
		st.hset(k, x.vc.define("h", Store(m, p.Base, inner)), p.Base)
		return
	}
	if p.Idx != nil && x.isStruct(t) {
		if len(p.Path) != 0 {
			panic(engErr("array of struct values inside a struct not supported (%s)", t))
		}
		x.storeStructElem(st, p, t, nil, v)
		return
	}
	if p.Idx != nil {
		base := &Pointer{Base: p.Base, OwnerKey: p.OwnerKey, Path: p.Path}
		arr := x.load(st, base, p.ArrT)
		na := Store(arr.Tm, p.Idx, x.coerce(v, t).term())
		x.store(st, base, p.ArrT, &Value{T: p.ArrT, Tm: x.vc.define("arr", na)})
		return
	}
	if x.isStruct(t) {
		fs, key := x.fieldsOf(t)
		if len(v.Fs) != len(fs) {
			panic(engErr("struct store arity mismatch for %s", t))
		}
		for i, f := range fs {
			fp := &Pointer{Base: p.Base, OwnerKey: p.OwnerKey}
			if len(p.Path) == 0 {
				fp.OwnerKey = key
			}
			fp.Path = append(append([]string{}, p.Path...), f.Name)
			if f.S != nil {
				x.storeRaw(st, fp, f.S, nil, v.Fs[i].Tm)
			} else {
				x.store(st, fp, f.T, v.Fs[i])
			}
		}
		return
	}
	x.storeRaw(st, p, x.sortOf(t), t, x.coerce(v, t).term())
}

func (x *Exec) storeRaw(st *State, p *Pointer, srt *Sort, t types.Type, tm *Term) {
	if tm.S != srt {
		panic(engErr("store of sort %s into location of sort %s", tm.S, srt))
	}
	key, ks := x.locKey(p, srt, t)
	m := st.hget(key, ks)
	st.hset(key, x.vc.define("h", Store(m, p.Base, tm)), p.Base)
	if len(p.Path) == 0 && p.Base.Op == "subref" {
		x.syncSubRef(st, p.Base, key, ks)
	}
}

// alloc returns a fresh, non-nil reference.
func (x *Exec) alloc(st *State) *Term {
	r := st.allocTop()
	st.allocK++
	for w := st.wlog; w != nil; w = w.parent {
		w.allocs = true
	}
	return r
}

// bumpAlloc: after an opaque call the allocation frontier is unknown but not lower.
func (x *Exec) bumpAlloc(st *State) {
	nb := x.fresh("alloc", IntS)
	x.vc.assume(Ge(nb, st.allocTop()))
	st.allocBase, st.allocK = nb, 0
	for w := st.wlog; w != nil; w = w.parent {
		w.allocs = true
	}
}

// zero value of a Go type
func (x *Exec) zero(t types.Type) *Value {
	t = types.Unalias(t)
	if x.isStruct(t) {
		fs, _ := x.fieldsOf(t)
		v := &Value{T: t, Fs: []*Value{}}
		for _, f := range fs {
			if f.S != nil {
				v.Fs = append(v.Fs, &Value{Tm: zeroOfSort(f.S)})
			} else {
				v.Fs = append(v.Fs, x.zero(f.T))
			}
		}
		return v
	}
	if isPointer(t) {
		return &Value{T: t, P: &Pointer{Base: IntLit(0)}}
	}
	return &Value{T: t, Tm: zeroOfSort(x.sortOf(t))}
}

func zeroOfSort(s *Sort) *Term {
	switch s.K {
	case KBool:
		return False
	case KInt:
		return IntLit(0)
	case KBV:
		return BVLit(big.NewInt(0), s.W)
	case KSlice:
		return MkSlice(IntLit(0), IntLit(0), IntLit(0))
	case KArr:
		return ConstArray(s, zeroOfSort(s.Rng))
	case KUn:
		return Var("zero!"+s.Name, s)
	}
	panic("zeroOfSort")
}

// symbolic creates an unconstrained value of type t (with type-range facts).
func (x *Exec) symbolic(st *State, t types.Type, hint string) *Value {
	t = types.Unalias(t)
	if x.isStruct(t) {
		fs, _ := x.fieldsOf(t)
		v := &Value{T: t, Fs: []*Value{}}
		for _, f := range fs {
			if f.S != nil {
				v.Fs = append(v.Fs, &Value{Tm: x.vc.fresh(hint+"."+f.Name, f.S)})
			} else {
				v.Fs = append(v.Fs, x.symbolic(st, f.T, hint+"."+f.Name))
			}
		}
		return v
	}
	tm := x.vc.fresh(hint, x.sortOf(t))
	v := x.typed(t, tm)
	x.assumeAllocated(st, t, tm)
	return v
}

// assumeAllocated: every reference value that exists now is below the allocation frontier.
func (x *Exec) assumeAllocated(st *State, t types.Type, tm *Term) {
	if tm.IsLit() {
		return
	}
	if tm.S == IntS && t != nil && isRefLike(t) {
		x.vc.assume(Lt(tm, st.allocTop()))
	}
	if tm.S == SliceS {
		x.vc.assume(Lt(SArr(tm), st.allocTop()))
	}
}

// coerce adapts untyped constants / nil to the target type.
func (x *Exec) coerce(v *Value, t types.Type) *Value {
	if v == nil {
		panic(engErr("nil value"))
	}
	if t != nil && v.Fs != nil {
		if _, isIface := types.Unalias(t).Underlying().(*types.Interface); isIface && v.T != nil {
			// boxing a struct value into an interface: an (under-constrained) non-nil reference
			// whose dynamic type is known
			ref := x.fresh("box", IntS)
			x.vc.assume(And(Gt(ref, IntLit(0)), Eq(App("dtype", IntS, ref), x.eng.typeID(v.T))))
			return &Value{T: t, Tm: ref}
		}
	}
	if t == nil || v.Fs != nil {
		return v
	}
	t = types.Unalias(t)
	if isPointer(t) {
		if v.P != nil {
			return v
		}
		return &Value{T: t, P: &Pointer{Base: v.Tm}}
	}
	if v.P != nil && !v.P.simple() {
		// an interior pointer passed where an interface is expected: keep it as a pointer value
		// (usable by contracts that dereference it; not storable)
		return v
	}
	if v.P != nil {
		// pointer flowing into interface / unsafe: keep the plain reference
		if _, isIface := t.Underlying().(*types.Interface); isIface && v.T != nil && isPointer(v.T) {
			x.vc.assume(Implies(Not(Eq(v.term(), IntLit(0))), Eq(App("dtype", IntS, v.term()), x.eng.typeID(v.T))))
		}
		return &Value{T: t, Tm: v.term()}
	}
	want, ok := x.eng.sortOf(t, x.bv)
	if !ok || v.Tm == nil {
		return v
	}
	if v.Tm.S == want {
		if v.T == nil || v.T != t {
			return &Value{T: t, Tm: v.Tm}
		}
		return v
	}
	// nil literal (Int 0) to slice
	if want == SliceS && v.Tm.S == IntS && v.Tm.IsLit() {
		return &Value{T: t, Tm: MkSlice(IntLit(0), IntLit(0), IntLit(0))}
	}
	if want.K == KBV && v.Tm.S == IntS {
		return &Value{T: t, Tm: Int2BV(v.Tm, want.W)}
	}
	if want == IntS && v.Tm.S.K == KBV {
		ii, _ := intTypeInfo(v.T)
		return &Value{T: t, Tm: BV2Int(v.Tm, ii.signed)}
	}
	if want.K == KBV && v.Tm.S.K == KBV {
		signed := false
		if v.T != nil {
			if ii, ok := intTypeInfo(v.T); ok {
				signed = ii.signed
			}
		}
		return &Value{T: t, Tm: BVResize(v.Tm, want.W, signed)}
	}
	if _, isIface := types.Unalias(t).Underlying().(*types.Interface); isIface {
		// boxing a non-reference value (string, bool, slice, ...) into an interface: an
		// under-constrained non-nil reference (the value itself is not tracked through the box)
		ref := x.fresh("box", IntS)
		x.vc.assume(Gt(ref, IntLit(0)))
		return &Value{T: t, Tm: ref}
	}
	panic(engErr("cannot coerce %s (sort %s) to %s (sort %s)", v.Tm.SMT(), v.Tm.S, t, want))
}

// ---------- merge ----------

func (x *Exec) mergeVal(c *Term, a, b *Value) *Value {
	if a == b {
		return a
	}
	if a == nil || b == nil {
		return nil
	}
	if a.Fs != nil || b.Fs != nil {
		if len(a.Fs) != len(b.Fs) {
			panic(engErr("merge of differently shaped structs"))
		}
		v := &Value{T: a.T}
		for i := range a.Fs {
			v.Fs = append(v.Fs, x.mergeVal(c, a.Fs[i], b.Fs[i]))
		}
		return v
	}
	if a.P != nil || b.P != nil {
		if a.P == nil || b.P == nil {
			return &Value{T: a.T, P: &Pointer{Base: x.vc.define("m", Ite(c, a.term(), b.term()))}}
		}
		pa, pb := a.P, b.P
		if pa.OwnerKey != pb.OwnerKey || strings.Join(pa.Path, ".") != strings.Join(pb.Path, ".") || (pa.Idx == nil) != (pb.Idx == nil) {
			if pa.Base == pb.Base {
				return a
			}
			panic(engErr("merge of interior pointers with different shapes"))
		}
		np := &Pointer{Base: x.vc.define("m", Ite(c, pa.Base, pb.Base)), OwnerKey: pa.OwnerKey, Path: pa.Path, ArrT: pa.ArrT}
		if pa.Idx != nil {
			np.Idx = Ite(c, pa.Idx, pb.Idx)
		}
		return &Value{T: a.T, P: np}
	}
	if a.Tm == b.Tm {
		return a
	}
	if a.Tm.S != b.Tm.S {
		panic(engErr("merge of values of sorts %s and %s", a.Tm.S, b.Tm.S))
	}
	return &Value{T: a.T, Tm: x.vc.define("m", Ite(c, a.Tm, b.Tm))}
}

// merge joins two states with disjoint guards.
func (x *Exec) merge(a, b *State) *State {
	if a == nil {
		return b
	}
	if b == nil {
		return a
	}
	if a.guard == False {
		return b
	}
	if b.guard == False {
		return a
	}
	c := a.guard
	n := &State{guard: Or(a.guard, b.guard), wlog: a.wlog}
	if len(a.defers) != len(b.defers) {
		panic(engErr("paths with different sets of deferred calls meet (not supported)"))
	}
	for i := range a.defers {
		if a.defers[i] != b.defers[i] {
			panic(engErr("paths with different deferred calls meet (not supported)"))
		}
	}
	n.defers = append([]*ast.CallExpr{}, a.defers...)
	n.guard = x.nameBool(n.guard)
	n.env = map[types.Object]*Value{}
	for k, va := range a.env {
		if vb, ok := b.env[k]; ok {
			n.env[k] = x.mergeVal(c, va, vb)
		}
	}
	n.heap = map[string]*Term{}
	keys := map[string]bool{}
	for k := range a.heap {
		keys[k] = true
	}
	for k := range b.heap {
		keys[k] = true
	}
	var ks []string
	for k := range keys {
		ks = append(ks, k)
	}
	sort.Strings(ks) // deterministic symbol numbering
	for _, k := range ks {
		ta, oka := a.heap[k]
		tb, okb := b.heap[k]
		if !oka {
			ta = Var(k+"@0", heapSorts[k])
		}
		if !okb {
			tb = Var(k+"@0", heapSorts[k])
		}
		if ta == tb {
			n.heap[k] = ta
		} else {
			n.heap[k] = x.vc.define("hm", x.mergeArr(c, ta, tb))
		}
	}
	if a.allocBase == b.allocBase {
		n.allocBase = a.allocBase
		n.allocK = max(a.allocK, b.allocK)
	} else {
		nb := x.fresh("alloc", IntS)
		x.vc.assume(And(Ge(nb, a.allocTop()), Ge(nb, b.allocTop())))
		n.allocBase, n.allocK = nb, 0
	}
	return n
}

func (x *Exec) mergeAll(ss []*State) *State {
	var r *State
	for _, s := range ss {
		if s != nil {
			r = x.merge(r, s)
		}
	}
	return r
}

// ---------- havoc ----------

// havocHeap replaces the listed heap maps by fresh ones that agree with the old
// ones on every reference below `top` that is not in the written set (when known).
func (x *Exec) havocHeap(st *State, writes []heapWrite, top *Term) {
	byKey := map[string][]*Term{}
	whole := map[string]bool{}
	order := []string{}
	for _, w := range writes {
		if _, ok := byKey[w.key]; !ok && !whole[w.key] {
			order = append(order, w.key)
		}
		if w.ref == nil {
			whole[w.key] = true
		}
		byKey[w.key] = append(byKey[w.key], w.ref)
	}
	sort.Strings(order)
	seenK := map[string]bool{}
	for _, k := range order {
		if seenK[k] {
			continue
		}
		seenK[k] = true
		srt := heapSorts[k]
		oldm := st.hget(k, srt)
		nm := x.vc.fresh("hv."+k, srt)
		if !whole[k] {
			r := Var("r!", IntS)
			if srt.Dom != IntS {
				// not reference-indexed (should not happen): havoc completely
				st.heap[k] = nm
				continue
			}
			conds := []*Term{Lt(r, top)}
			seen := map[*Term]bool{}
			for _, ref := range byKey[k] {
				if ref == nil || seen[ref] {
					continue
				}
				seen[ref] = true
				// references that are fresh allocations (>= top) need no exclusion
				if Lt(ref, top) == False {
					continue
				}
				conds = append(conds, Not(Eq(r, ref)))
			}
			body := Implies(And(conds...), mk("=", "", BoolS, nil, mk("select", "", srt.Rng, nil, nm, r), mk("select", "", srt.Rng, nil, oldm, r)))
			x.vc.assume(Forall([]*Term{r}, body, mk("select", "", srt.Rng, nil, nm, r)))
		}
		st.heap[k] = nm
	}
}

func sameValue(a, b *Value) bool {
	if a.Fs != nil || b.Fs != nil {
		return false
	}
	if a.P != nil && b.P != nil {
		return a.P.simple() && b.P.simple() && a.P.Base == b.P.Base
	}
	if a.P != nil || b.P != nil {
		var at, bt *Term
		if a.P != nil && a.P.simple() {
			at = a.P.Base
		} else {
			at = a.Tm
		}
		if b.P != nil && b.P.simple() {
			bt = b.P.Base
		} else {
			bt = b.Tm
		}
		return at != nil && at == bt
	}
	return a.Tm != nil && a.Tm == b.Tm
}

type storeStep struct {
	k, v *Term
	at   *Term // the term after this store
}

// storeChain unwinds t through stores and definitions down to its base.
func (x *Exec) storeChain(t *Term) (*Term, []storeStep) {
	var steps []storeStep
	for len(steps) < 64 {
		if t.Op == "store" {
			steps = append(steps, storeStep{t.Args[1], t.Args[2], t})
			t = t.Args[0]
			continue
		}
		if d := x.vc.defs[t]; d != nil && d.Op == "store" {
			steps = append(steps, storeStep{d.Args[1], d.Args[2], t})
			t = d.Args[0]
			continue
		}
		break
	}
	// innermost first
	for i, j := 0, len(steps)-1; i < j; i, j = i+1, j-1 {
		steps[i], steps[j] = steps[j], steps[i]
	}
	return t, steps
}

// mergeArr merges two versions of a heap map under condition c. When both are
// store chains over a common ancestor the result is that ancestor with the
// diverging stores applied conditionally (pointwise), which solvers handle far
// better than an if-then-else between whole arrays.
func (x *Exec) mergeArr(c, ta, tb *Term) *Term {
	if ta.S.K != KArr {
		return Ite(c, ta, tb)
	}
	ba, ca := x.storeChain(ta)
	bb, cb := x.storeChain(tb)
	if ba != bb {
		return Ite(c, ta, tb)
	}
	n := 0
	for n < len(ca) && n < len(cb) && ca[n].at == cb[n].at {
		n++
	}
	ra, rb := ca[n:], cb[n:]
	if len(ra)+len(rb) > 16 {
		return Ite(c, ta, tb)
	}
	cur := ba
	if n > 0 {
		cur = ca[n-1].at
	}
	for _, s := range ra {
		cur = Store(cur, s.k, Ite(c, s.v, Select(cur, s.k)))
	}
	for _, s := range rb {
		cur = Store(cur, s.k, Ite(c, Select(cur, s.k), s.v))
	}
	return cur
}

// Slices whose elements are struct values are stored field-wise: one element map per
// (struct type, field path), "ES!<Type>!<path>" : backing-array ref -> index -> field value.
func (x *Exec) structElemKey(key string, path []string, fs *Sort, ft types.Type) (string, *Sort) {
	return "ES!" + key + "!" + strings.Join(path, ".") + refTag(ft), ArrS(IntS, ArrS(IntS, fs))
}

func (x *Exec) loadStructElem(st *State, p *Pointer, t types.Type, path []string) *Value {
	fs, key := x.fieldsOf(t)
	if len(path) > 0 {
		key = p.OwnerKey
	}
	v := &Value{T: t}
	for _, f := range fs {
		fpath := append(append([]string{}, path...), f.Name)
		if f.S == nil && x.isStruct(f.T) {
			sub := &Pointer{Base: p.Base, Idx: p.Idx, ArrT: p.ArrT, OwnerKey: key}
			v.Fs = append(v.Fs, x.loadStructElem(st, sub, f.T, fpath))
			continue
		}
		srt := f.S
		if srt == nil {
			srt = x.sortOf(f.T)
		}
		k, ks := x.structElemKey(key, fpath, srt, f.T)
		tm := Select(Select(st.hget(k, ks), p.Base), p.Idx)
		if f.S != nil {
			v.Fs = append(v.Fs, &Value{Tm: tm})
		} else {
			fv := x.typed(f.T, tm)
			x.assumeAllocated(st, f.T, tm)
			v.Fs = append(v.Fs, fv)
		}
	}
	return v
}

func (x *Exec) storeStructElem(st *State, p *Pointer, t types.Type, path []string, v *Value) {
	fs, key := x.fieldsOf(t)
	if len(path) > 0 {
		key = p.OwnerKey
	}
	if len(v.Fs) != len(fs) {
		panic(engErr("struct element store arity mismatch for %s", t))
	}
	for i, f := range fs {
		fpath := append(append([]string{}, path...), f.Name)
		if f.S == nil && x.isStruct(f.T) {
			sub := &Pointer{Base: p.Base, Idx: p.Idx, ArrT: p.ArrT, OwnerKey: key}
			x.storeStructElem(st, sub, f.T, fpath, v.Fs[i])
			continue
		}
		srt := f.S
		var tm *Term
		if srt == nil {
			srt = x.sortOf(f.T)
			tm = x.coerce(v.Fs[i], f.T).term()
		} else {
			tm = v.Fs[i].Tm
		}
		k, ks := x.structElemKey(key, fpath, srt, f.T)
		m := st.hget(k, ks)
		inner := Store(Select(m, p.Base), p.Idx, tm)
		st.hset(k, x.vc.define("h", Store(m, p.Base, inner)), p.Base)
	}
}

// havocStructElems gives every field map of the array of struct values at ref arbitrary new contents.
func (x *Exec) havocStructElems(st *State, ref *Term, t types.Type, path []string, key string) {
	fs, k := x.fieldsOf(t)
	if len(path) == 0 {
		key = k
	}
	for _, f := range fs {
		fpath := append(append([]string{}, path...), f.Name)
		if f.S == nil && x.isStruct(f.T) {
			x.havocStructElems(st, ref, f.T, fpath, key)
			continue
		}
		srt := f.S
		if srt == nil {
			srt = x.sortOf(f.T)
		}
		hk, ks := x.structElemKey(key, fpath, srt, f.T)
		m := st.hget(hk, ks)
		st.hset(hk, x.vc.define("h", Store(m, ref, x.fresh("hv.elems", ArrS(IntS, srt)))), ref)
	}
}

// zeroStructElems zero-initialises every field map of a fresh array of struct values at ref.
func (x *Exec) zeroStructElems(st *State, ref *Term, t types.Type, path []string, key string) {
	fs, k := x.fieldsOf(t)
	if len(path) == 0 {
		key = k
	}
	for _, f := range fs {
		fpath := append(append([]string{}, path...), f.Name)
		if f.S == nil && x.isStruct(f.T) {
			x.zeroStructElems(st, ref, f.T, fpath, key)
			continue
		}
		srt := f.S
		if srt == nil {
			srt = x.sortOf(f.T)
		}
		hk, ks := x.structElemKey(key, fpath, srt, f.T)
		m := st.hget(hk, ks)
		st.hset(hk, x.vc.define("h", Store(m, ref, ConstArray(ArrS(IntS, srt), zeroOfSort(srt)))), ref)
	}
}
