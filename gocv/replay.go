package main

import (
	"encoding/json"
	"fmt"
	"os"
)

// replayObligation records the failed obligation and, where a replay harness is
// registered for it, runs the real code on the counterexample.
func replayObligation(eng *Engine, prop string, r *FuncResult, o *Obligation) (string, bool) {
	extra := map[string]any{"status": o.Status, "kind": o.Kind, "pos": o.Pos, "goal": trunc(o.Goal.SMT(), 2000)}
	if o.Model != nil {
		in := map[string]string{}
		for _, t := range o.Inputs {
			if v, ok := o.Model[t.Name]; ok {
				in[t.Name] = v
			}
		}
		extra["model_inputs"] = in
	}
	path := writeReplay(prop, r.Key, o.Name, o.Output, extra)
	ok := runReplayHarness(eng, prop, r, o, path)
	return path, ok
}

func cmdReplay(args []string) int {
	if len(args) < 1 {
		fmt.Fprintln(os.Stderr, "usage: gocv replay <file>")
		return 2
	}
	data, err := os.ReadFile(args[0])
	if err != nil {
		fmt.Fprintln(os.Stderr, err)
		return 2
	}
	var m map[string]any
	json.Unmarshal(data, &m)
	fmt.Printf("property=%v function=%v obligation=%v\n%v\n", m["property"], m["function"], m["obligation"], m["solver_output"])
	if t, ok := m["replay_test"].(string); ok && t != "" {
		return runReplayFile(t, m)
	}
	return 0
}
