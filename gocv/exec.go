package main

// Symbolic execution of statements.

import (
	"sort"
	"fmt"
	"go/ast"
	"go/token"
	"go/types"
	"strings"
)

type loopCtx struct {
	label     string
	breaks    []*State
	continues []*State
	isSwitch  bool
}

type frame struct {
	fi       *FuncInfo
	info     *types.Info
	pkg      *types.Package
	returns  []*State
	retVals  [][]*Value
	results  []*types.Var
	loops    []*loopCtx
	boxed    map[types.Object]bool
	boxRef   map[types.Object]*Term
	loopOrd  map[ast.Node]int
	contract *Contract
	depth    int
	firstVal map[string]*Value // value given to a local at its declaration, by name (first(x) in contracts)
}

type Exec struct {
	lastObl *Obligation
	subRefs map[*Term]subRefInfo
	eng       *Engine
	vc        *VC
	bv        bool
	overflow  bool
	safety    bool
	c         *Contract
	top       *FuncInfo
	frames    []*frame
	old       *State
	typedSeen map[*Term]bool
	dry       int
	symMark   map[*Term]int
	notes     []string
	inlined   map[string]bool
	used      map[string]bool // contracts assumed at call sites
	pendingLabel string
	topScope  *SpecScope
	wfSeen    map[[2]*Term]bool
	ghosts    map[string]*Value
	staticRecv types.Type
	globalVals map[*types.Var]*Value
	allocSeen  map[[2]*Term]bool
}

func (x *Exec) fr() *frame { return x.frames[len(x.frames)-1] }

func (x *Exec) pos(n ast.Node) string {
	p := x.eng.fset.Position(n.Pos())
	f := p.Filename
	if i := strings.Index(f, "/repo/"); i >= 0 {
		f = f[i+6:]
	}
	return fmt.Sprintf("%s:%d", f, p.Line)
}

func (x *Exec) oblige(st *State, kind, name string, cond *Term, n ast.Node) {
	x.lastObl = nil
	if x.dry > 0 {
		return
	}
	if kind != "ensures" && kind != "invariant-entry" && kind != "invariant-step" && kind != "requires" && kind != "assert" && kind != "modifies" && kind != "lemma" && kind != "writes-fresh" {
		// safety-class obligations
		if !x.safety {
			return
		}
	}
	pos := ""
	if n != nil {
		pos = x.pos(n)
	}
	goal := Implies(st.guard, cond)
	// ordinal suffix for uniqueness within the function
	base := kind + ":" + name
	cnt := 0
	for _, o := range x.vc.obls {
		if o.Name == base || strings.HasPrefix(o.Name, base+"#") {
			cnt++
		}
	}
	if cnt > 0 {
		base = fmt.Sprintf("%s#%d", base, cnt+1)
	}
	x.lastObl = x.vc.oblige(kind, base, goal, pos)
}

func (x *Exec) assume(st *State, t *Term) {
	x.vc.assume(Implies(st.guard, t))
}

// ---------- statements ----------

func (x *Exec) execBlock(list []ast.Stmt, st *State) *State {
	for _, s := range list {
		if st == nil {
			return nil
		}
		st = x.execStmt(s, st)
	}
	return st
}

func (x *Exec) execStmt(s ast.Stmt, st *State) *State {
	if st == nil || st.guard == False {
		return nil
	}
	switch s := s.(type) {
	case *ast.BlockStmt:
		return x.execBlock(s.List, st)
	case *ast.ExprStmt:
		if call, ok := s.X.(*ast.CallExpr); ok {
			if id, ok := call.Fun.(*ast.Ident); ok && id.Name == "panic" && x.isBuiltin(id) {
				return x.execPanic(call, st)
			}
			x.evalCall(call, st)
			if st.guard == False {
				return nil
			}
			return st
		}
		x.eval(s.X, st)
		return st
	case *ast.AssignStmt:
		return x.execAssign(s, st)
	case *ast.IncDecStmt:
		v := x.eval(s.X, st)
		one := x.coerce(&Value{Tm: IntLit(1)}, v.T)
		op := token.ADD
		if s.Tok == token.DEC {
			op = token.SUB
		}
		r := x.binop(op, v, one, v.T, st, s)
		x.assign(s.X, r, st)
		return st
	case *ast.DeclStmt:
		gd := s.Decl.(*ast.GenDecl)
		if gd.Tok != token.VAR {
			return st
		}
		for _, sp := range gd.Specs {
			vs := sp.(*ast.ValueSpec)
			if len(vs.Values) == 1 && len(vs.Names) > 1 {
				vals := x.evalMulti(vs.Values[0], st)
				for i, n := range vs.Names {
					x.declare(n, vals[i], st)
				}
				continue
			}
			for i, n := range vs.Names {
				obj := x.fr().info.Defs[n]
				if obj == nil {
					continue
				}
				var v *Value
				if i < len(vs.Values) {
					v = x.coerce(x.eval(vs.Values[i], st), obj.Type())
				} else if at, ok := types.Unalias(obj.Type()).Underlying().(*types.Array); ok && x.isStruct(at.Elem()) {
					// local array of struct values: lives in memory (field-wise element maps), zeroed
					ref := x.alloc(st)
					x.fr().boxed[obj] = true
					x.fr().boxRef[obj] = ref
					st.setVar(obj, &Value{T: types.NewPointer(obj.Type()), P: &Pointer{Base: ref}})
					x.zeroStructElems(st, ref, at.Elem(), nil, "")
					continue
				} else {
					v = x.zero(obj.Type())
				}
				x.declare(n, v, st)
				if i >= len(vs.Values) && x.fr().boxed[obj] {
					if nt, ok := types.Unalias(obj.Type()).(*types.Named); ok {
						if zi, ok := x.eng.db.ZeroInit[qualName(nt)]; ok {
							gs := x.eng.pre.Ghost[zi[0]]
							ref := st.env[obj].P.Base
							m := st.hget("G!"+zi[0], ArrS(IntS, gs))
							st.hset("G!"+zi[0], Store(m, ref, Var(zi[1], gs)), ref)
						}
					}
				}
			}
		}
		return st
	case *ast.IfStmt:
		return x.execIf(s, st)
	case *ast.ForStmt:
		return x.execFor(s, st, x.takeLabel())
	case *ast.RangeStmt:
		return x.execRange(s, st, x.takeLabel())
	case *ast.SwitchStmt:
		return x.execSwitch(s, st, x.takeLabel())
	case *ast.TypeSwitchStmt:
		return x.execTypeSwitch(s, st, x.takeLabel())
	case *ast.LabeledStmt:
		x.pendingLabel = s.Label.Name
		return x.execStmt(s.Stmt, st)
	case *ast.ReturnStmt:
		return x.execReturn(s, st)
	case *ast.BranchStmt:
		label := ""
		if s.Label != nil {
			label = s.Label.Name
		}
		f := x.fr()
		for i := len(f.loops) - 1; i >= 0; i-- {
			lc := f.loops[i]
			if label != "" && lc.label != label {
				continue
			}
			switch s.Tok {
			case token.BREAK:
				lc.breaks = append(lc.breaks, st)
				return nil
			case token.CONTINUE:
				if lc.isSwitch {
					continue
				}
				lc.continues = append(lc.continues, st)
				return nil
			}
		}
		panic(engErr("unsupported branch statement %s at %s", s.Tok, x.pos(s)))
	case *ast.EmptyStmt:
		return st
	case *ast.DeferStmt:
		if x.c != nil && x.c.Opts["ignore_defer"] != "" {
			x.note("defer ignored at " + x.pos(s))
			return st
		}
		// deferred plain call without arguments (the mu.Unlock() idiom): run at every return of this
		// path. The receiver expression is evaluated when the call runs (Go evaluates it at the defer
		// statement; the two coincide as long as the receiver variable is not reassigned in between).
		if _, isLit := s.Call.Fun.(*ast.FuncLit); !isLit && len(s.Call.Args) == 0 && len(x.frames) == 1 {
			st.defers = append(st.defers, s.Call)
			return st
		}
		panic(engErr("defer not supported at %s", x.pos(s)))
	case *ast.GoStmt:
		panic(engErr("go statement not supported at %s", x.pos(s)))
	}
	panic(engErr("unsupported statement %T at %s", s, x.pos(s)))
}

// nameBool introduces a definition for a large boolean term (path conditions).
func (x *Exec) nameBool(t *Term) *Term {
	if t.size <= 6 || t.Op == "var" || t.IsLit() {
		return t
	}
	if t.Op == "not" && t.Args[0].Op == "var" {
		return t
	}
	g := x.vc.fresh("g", BoolS)
	x.vc.facts = append(x.vc.facts, Fact{T: mk("=", "", BoolS, nil, g, t), Def: g})
	return g
}

func (x *Exec) takeLabel() string {
	l := x.pendingLabel
	x.pendingLabel = ""
	return l
}

func (x *Exec) note(s string) {
	for _, n := range x.notes {
		if n == s {
			return
		}
	}
	x.notes = append(x.notes, s)
}

func (x *Exec) isBuiltin(id *ast.Ident) bool {
	_, ok := x.fr().info.Uses[id].(*types.Builtin)
	return ok
}

func (x *Exec) execPanic(call *ast.CallExpr, st *State) *State {
	c := x.fr().contract
	if c != nil && c.PanicsOK {
		return nil
	}
	if x.c != nil && x.c.PanicsOK {
		return nil
	}
	x.oblige(st, "nopanic", "panic@"+x.fr().fi.Key, False, call)
	return nil
}

func (x *Exec) declare(n *ast.Ident, v *Value, st *State) {
	if n.Name == "_" {
		return
	}
	obj := x.fr().info.Defs[n]
	if obj == nil {
		// redeclaration in := of an existing variable
		obj = x.fr().info.Uses[n]
		if obj == nil {
			panic(engErr("no object for %s", n.Name))
		}
		x.assign(n, v, st)
		return
	}
	v = x.coerce(v, obj.Type())
	if f := x.fr(); x.dry == 0 && v != nil && v.Tm != nil {
		if f.firstVal == nil {
			f.firstVal = map[string]*Value{}
		}
		if _, seen := f.firstVal[n.Name]; !seen {
			f.firstVal[n.Name] = v
		}
	}
	if x.fr().boxed[obj] {
		ref := x.alloc(st)
		x.fr().boxRef[obj] = ref
		st.setVar(obj, &Value{T: types.NewPointer(obj.Type()), P: &Pointer{Base: ref}})
		x.store(st, &Pointer{Base: ref}, obj.Type(), v)
		return
	}
	st.setVar(obj, x.named(n.Name, v))
}

// named introduces definitions for large scalar terms.
func (x *Exec) named(hint string, v *Value) *Value {
	if v.Tm != nil && v.Tm.size > 12 {
		return &Value{T: v.T, Tm: x.vc.define(hint, v.Tm)}
	}
	return v
}

func (x *Exec) execAssign(s *ast.AssignStmt, st *State) *State {
	if (s.Tok == token.ASSIGN || s.Tok == token.DEFINE) && len(s.Lhs) == len(s.Rhs) {
		for _, r := range s.Rhs {
			x.checkBigCopy(st, r)
		}
	}
	if s.Tok != token.ASSIGN && s.Tok != token.DEFINE {
		// op-assign
		var op token.Token
		switch s.Tok {
		case token.ADD_ASSIGN:
			op = token.ADD
		case token.SUB_ASSIGN:
			op = token.SUB
		case token.MUL_ASSIGN:
			op = token.MUL
		case token.QUO_ASSIGN:
			op = token.QUO
		case token.REM_ASSIGN:
			op = token.REM
		case token.AND_ASSIGN:
			op = token.AND
		case token.OR_ASSIGN:
			op = token.OR
		case token.XOR_ASSIGN:
			op = token.XOR
		case token.SHL_ASSIGN:
			op = token.SHL
		case token.SHR_ASSIGN:
			op = token.SHR
		case token.AND_NOT_ASSIGN:
			op = token.AND_NOT
		}
		l := x.eval(s.Lhs[0], st)
		r := x.eval(s.Rhs[0], st)
		x.assign(s.Lhs[0], x.binop(op, l, r, l.T, st, s), st)
		return st
	}
	var vals []*Value
	if len(s.Rhs) == 1 && len(s.Lhs) > 1 {
		vals = x.evalMulti(s.Rhs[0], st)
		if len(vals) != len(s.Lhs) {
			panic(engErr("assignment arity mismatch at %s", x.pos(s)))
		}
	} else {
		for _, r := range s.Rhs {
			vals = append(vals, x.eval(r, st))
		}
	}
	if st.guard == False {
		return nil
	}
	for i, l := range s.Lhs {
		if id, ok := l.(*ast.Ident); ok {
			if id.Name == "_" {
				continue
			}
			if s.Tok == token.DEFINE {
				x.declare(id, vals[i], st)
				continue
			}
		}
		x.assign(l, vals[i], st)
	}
	return st
}

func (x *Exec) execIf(s *ast.IfStmt, st *State) *State {
	if s.Init != nil {
		st = x.execStmt(s.Init, st)
		if st == nil {
			return nil
		}
	}
	c := x.evalCond(s.Cond, st)
	if st.guard == False {
		return nil
	}
	c = x.nameBool(c)
	thenSt := st.clone()
	thenSt.guard = x.nameBool(And(st.guard, c))
	elseSt := st
	elseSt.guard = x.nameBool(And(st.guard, Not(c)))
	var a, b *State
	if thenSt.guard != False {
		a = x.execBlock(s.Body.List, thenSt)
	}
	if elseSt.guard != False {
		if s.Else != nil {
			b = x.execStmt(s.Else, elseSt)
		} else {
			b = elseSt
		}
	}
	return x.merge(a, b)
}

func (x *Exec) evalCond(e ast.Expr, st *State) *Term {
	v := x.eval(e, st)
	if v.Tm == nil || v.Tm.S != BoolS {
		panic(engErr("condition is not boolean at %s", x.pos(e)))
	}
	return v.Tm
}

func (x *Exec) execReturn(s *ast.ReturnStmt, st *State) *State {
	f := x.fr()
	var vals []*Value
	if len(s.Results) == 0 {
		for _, r := range f.results {
			vals = append(vals, x.readVar(r, st))
		}
	} else if len(s.Results) == 1 && len(f.results) > 1 {
		vals = x.evalMulti(s.Results[0], st)
	} else {
		for _, r := range s.Results {
			vals = append(vals, x.eval(r, st))
		}
	}
	if st.guard == False {
		return nil
	}
	for i := range vals {
		vals[i] = x.coerce(vals[i], f.results[i].Type())
	}
	x.runDefers(st)
	f.returns = append(f.returns, st)
	f.retVals = append(f.retVals, vals)
	return nil
}

func (x *Exec) readVar(o types.Object, st *State) *Value {
	v, ok := st.env[o]
	if !ok {
		panic(engErr("variable %s not in scope", o.Name()))
	}
	if x.fr().boxed[o] {
		if at, ok := types.Unalias(o.Type()).Underlying().(*types.Array); ok && x.isStruct(at.Elem()) {
			return v // array of struct values: used through its address (indexing, &a[i])
		}
		return x.load(st, v.P, o.Type())
	}
	return v
}

// ---------- loops ----------

func (x *Exec) loopSpec(n ast.Node) (*LoopSpec, int) {
	f := x.fr()
	ord := f.loopOrd[n]
	if f.contract != nil {
		return f.contract.Loops[ord], ord
	}
	return nil, ord
}

const maxUnroll = 5000

func (x *Exec) execFor(s *ast.ForStmt, st *State, label string) *State {
	if s.Init != nil {
		st = x.execStmt(s.Init, st)
		if st == nil {
			return nil
		}
	}
	spec, ord := x.loopSpec(s)
	cond := func(st *State) *Term {
		if s.Cond == nil {
			return True
		}
		return x.evalCond(s.Cond, st)
	}
	body := func(st *State) *State { return x.execBlock(s.Body.List, st) }
	post := func(st *State) *State {
		if s.Post == nil {
			return st
		}
		return x.execStmt(s.Post, st)
	}
	return x.runLoop(spec, ord, label, st, cond, body, post, s, nil)
}

// runLoop executes a loop either by exact unrolling (condition decided by the
// simplifier at every iteration) or by cutting it at its invariant.
func (x *Exec) runLoop(spec *LoopSpec, ord int, label string, st *State, cond func(*State) *Term,
	body func(*State) *State, post func(*State) *State, n ast.Node, scope *SpecScope) *State {
	f := x.fr()
	if spec == nil || len(spec.Inv) == 0 {
		var exits []*State
		for it := 0; ; it++ {
			if it > maxUnroll {
				panic(engErr("loop %d at %s: unrolling exceeded %d iterations", ord, x.pos(n), maxUnroll))
			}
			c := cond(st)
			if c == False {
				exits = append(exits, st)
				break
			}
			if c != True {
				// try: is the condition decided under the guard? (cheap syntactic only)
				panic(engErr("loop %d of %s at %s needs an invariant (condition %s not constant)", ord, f.fi.Key, x.pos(n), trunc(c.SMT(), 120)))
			}
			lc := &loopCtx{label: label}
			f.loops = append(f.loops, lc)
			after := body(st)
			f.loops = f.loops[:len(f.loops)-1]
			exits = append(exits, lc.breaks...)
			after = x.mergeAll(append([]*State{after}, lc.continues...))
			if after == nil {
				break
			}
			after = post(after)
			if after == nil {
				break
			}
			st = after
		}
		return x.mergeAll(exits)
	}
	// --- invariant-based ---
	name := fmt.Sprintf("%s/loop%d", shortKey(f.fi.Key), ord)
	sc := x.loopScope(st, n, scope)
	for _, g := range spec.Ghost {
		x.dry++
		v := x.evalSpecVal(g, sc, st)
		x.dry--
		if x.ghosts == nil {
			x.ghosts = map[string]*Value{}
		}
		x.ghosts[g.Label] = v
	}
	for i, inv := range spec.Inv {
		t := x.evalSpecBool(inv, sc, st)
		x.oblige(st, "invariant-entry", name+"/"+clauseName(inv, i), t, n)
	}
	// discover the write set by dry runs to a fixpoint
	topAtEntry := st.allocTop()
	mark := x.vc.nsym
	var wl *WriteLog
	hst := st
	for round := 0; round < 6; round++ {
		wl = &WriteLog{vars: map[types.Object]bool{}, parent: hst.wlog}
		dst := hst.clone()
		dst.wlog = wl
		nf := len(x.vc.facts)
		savedRet, savedRV := f.returns, f.retVals
		x.dry++
		func() {
			lc := &loopCtx{label: label}
			f.loops = append(f.loops, lc)
			defer func() { f.loops = f.loops[:len(f.loops)-1] }()
			if len(spec.Head) > 0 {
				dsc := x.loopScope(dst, n, scope)
				for _, g := range spec.Head {
					if x.ghosts == nil {
						x.ghosts = map[string]*Value{}
					}
					x.ghosts[g.Label] = x.evalSpecVal(g, dsc, dst)
				}
			}
			c := cond(dst)
			bst := dst.clone()
			bst.guard = And(dst.guard, c)
			after := body(bst)
			after = x.mergeAll(append([]*State{after}, lc.continues...))
			if after != nil {
				post(after)
			}
		}()
		x.dry--
		f.returns, f.retVals = savedRet, savedRV
		x.vc.facts = x.vc.facts[:nf]
		// build havoc state from the log
		nh := st.clone()
		changed := x.applyLoopHavoc(nh, st, wl, topAtEntry, mark, spec)
		if round > 0 && !changed(hst) {
			hst = nh
			break
		}
		hst = nh
	}
	// propagate writes to enclosing logs
	for w := st.wlog; w != nil; w = w.parent {
		for o := range wl.vars {
			w.vars[o] = true
		}
		w.heap = append(w.heap, wl.heap...)
		w.allocs = w.allocs || wl.allocs
	}
	x.assumeHeapWF(hst)
	sc = x.loopScope(hst, n, scope)
	for _, inv := range spec.Inv {
		x.assume(hst, x.evalSpecBool(inv, sc, hst))
	}
	for _, g := range spec.Head {
		x.dry++
		v := x.evalSpecVal(g, sc, hst)
		x.dry--
		if x.ghosts == nil {
			x.ghosts = map[string]*Value{}
		}
		x.ghosts[g.Label] = v
	}
	c := x.nameBool(cond(hst))
	bst := hst.clone()
	bst.guard = x.nameBool(And(hst.guard, c))
	exitSt := hst
	exitSt.guard = x.nameBool(And(hst.guard, Not(c)))
	lc := &loopCtx{label: label}
	f.loops = append(f.loops, lc)
	var after *State
	var realLog *WriteLog
	if spec.WritesFresh {
		realLog = &WriteLog{vars: map[types.Object]bool{}, parent: bst.wlog}
		bst.wlog = realLog
	}
	if bst.guard != False {
		after = body(bst)
	}
	f.loops = f.loops[:len(f.loops)-1]
	if realLog != nil {
		a0 := x.old.allocTop()
		seenW := map[[2]*Term]bool{}
		for _, w := range realLog.heap {
			if w.ref == nil || w.guard == nil {
				continue
			}
			if x.maxSym(w.ref) <= mark && !(Lt(w.ref, topAtEntry) == False) {
				continue // loop-invariant reference: handled by the specific frame
			}
			if loopHavocKey(spec, w.key) {
				continue // "loop N havoc <map>": the whole map is havocked, nothing is claimed about it
			}
			key := [2]*Term{w.ref, w.guard}
			if seenW[key] {
				continue
			}
			seenW[key] = true
			ws := &State{guard: w.guard}
			x.oblige(ws, "writes-fresh", name+"/"+frameName(w.key), Ge(w.ref, a0), n)
		}
		// restore the log chain of states leaving the loop
		for _, s2 := range append(append([]*State{after}, lc.breaks...), lc.continues...) {
			if s2 != nil && s2.wlog == realLog {
				s2.wlog = realLog.parent
			}
		}
	}
	after = x.mergeAll(append([]*State{after}, lc.continues...))
	if after != nil && len(spec.Assert) > 0 {
		sc1 := x.loopScope(after, n, scope)
		for i, a := range spec.Assert {
			t := x.evalSpecBool(a, sc1, after)
			x.oblige(after, "assert", name+"/step-"+clauseName(a, i), t, n)
			x.assume(after, t)
		}
	}
	if after != nil {
		after = post(after)
	}
	if after != nil {
		sc2 := x.loopScope(after, n, scope)
		for i, inv := range spec.Inv {
			t := x.evalSpecBool(inv, sc2, after)
			x.oblige(after, "invariant-step", name+"/"+clauseName(inv, i), t, n)
		}
		if x.dry == 0 {
			co := x.vc.oblige("cover", "cover:"+name+"/body-end", after.guard, x.pos(n))
			co.Status = ""
			co.Cover = true
		}
	}
	exits := append([]*State{}, lc.breaks...)
	if exitSt.guard != False {
		exits = append(exits, exitSt)
	}
	return x.mergeAll(exits)
}

func clauseName(c Clause, i int) string {
	if c.Label != "" {
		return c.Label
	}
	return fmt.Sprintf("%d", i+1)
}

func shortKey(k string) string {
	if i := strings.LastIndex(k, "/"); i >= 0 {
		return k[i+1:]
	}
	return k
}

func trunc(s string, n int) string {
	if len(s) > n {
		return s[:n] + "..."
	}
	return s
}

// applyLoopHavoc havocs in nh everything the log says the loop may write.
// It returns a function telling whether the havoc set differs from that of prev.
func (x *Exec) applyLoopHavoc(nh, pre *State, wl *WriteLog, top *Term, mark int, spec *LoopSpec) func(prev *State) bool {
	// alloc frontier
	nb := x.fresh("alloc", IntS)
	x.vc.assume(Ge(nb, top))
	nh.allocBase, nh.allocK = nb, 0
	// variables
	var wvars []types.Object
	for o := range wl.vars {
		wvars = append(wvars, o)
	}
	sort.Slice(wvars, func(i, j int) bool {
		if wvars[i].Pos() != wvars[j].Pos() {
			return wvars[i].Pos() < wvars[j].Pos()
		}
		return wvars[i].Name() < wvars[j].Name()
	})
	for _, o := range wvars {
		if v, ok := pre.env[o]; ok {
			if x.fr().boxed[o] {
				continue // boxed: pointer itself does not change; contents are heap writes
			}
			nh.env[o] = x.symbolicLike(nh, v, o.Name())
		}
	}
	// heap
	var ws []heapWrite
	freshOnly := map[string]bool{}
	for _, w := range wl.heap {
		if w.ref == nil {
			ws = append(ws, w)
			continue
		}
		if Lt(w.ref, top) == False {
			continue // object allocated inside the loop
		}
		if x.maxSym(w.ref) > mark {
			// written through a loop-variant reference; objects allocated in the loop are
			// covered by the frame axiom (they are >= top), older ones are not known
			if b, _, ok := splitOffset(w.ref); ok && b != nil && x.symMark[b] > mark && strings.HasPrefix(b.Name, "alloc!") {
				continue
			}
			if spec != nil && spec.WritesFresh && !loopHavocKey(spec, w.key) {
				freshOnly[w.key] = true
				continue
			}
			ws = append(ws, heapWrite{w.key, nil, nil})
			continue
		}
		ws = append(ws, w)
	}
	// keys written only at in-loop allocations still need the frame axiom
	keys := map[string]bool{}
	for _, w := range wl.heap {
		keys[w.key] = true
	}
	have := map[string]bool{}
	for _, w := range ws {
		have[w.key] = true
	}
	for _, k := range sortedKeys(keys) {
		if !have[k] {
			ws = append(ws, heapWrite{k, top, nil}) // dummy ref >= top: filtered by havocHeap
		}
	}
	x.havocHeap(nh, ws, top)
	// keys written through loop-variant references under `writes_fresh`: only objects that
	// existed at function entry are known to be unchanged
	for _, k := range sortedKeys(freshOnly) {
		whole := false
		for _, w := range ws {
			if w.key == k && w.ref == nil {
				whole = true
			}
		}
		if whole {
			continue
		}
		cur := nh.heap[k]
		pre0 := pre.hget(k, heapSorts[k])
		if cur == pre0 {
			// not havocked yet
			cur = x.fresh("hv."+k, heapSorts[k])
			nh.heap[k] = cur
			// still agrees with pre-state on specific loop-invariant exclusions? be conservative: only entry objects
		}
		srt := heapSorts[k]
		r := Var("r!", IntS)
		a0 := x.old.allocTop()
		body := Implies(Lt(r, a0), mk("=", "", BoolS, nil, mk("select", "", srt.Rng, nil, cur, r), mk("select", "", srt.Rng, nil, pre0, r)))
		// entry objects that the loop may write through loop-invariant refs are excluded by havocHeap's own axiom;
		// here we need them excluded too
		var excl []*Term
		for _, w := range ws {
			if w.key == k && w.ref != nil && Lt(w.ref, top) != False {
				excl = append(excl, Not(Eq(r, w.ref)))
			}
		}
		if len(excl) > 0 {
			body = Implies(And(append([]*Term{Lt(r, a0)}, excl...)...), mk("=", "", BoolS, nil, mk("select", "", srt.Rng, nil, cur, r), mk("select", "", srt.Rng, nil, pre0, r)))
		}
		x.vc.assume(Forall([]*Term{r}, body, mk("select", "", srt.Rng, nil, cur, r)))
	}
	sig := x.havocSig(wl, ws)
	for _, k := range sortedKeys(freshOnly) {
		sig += ";fresh:" + k
	}
	nh.env[havocSigObj] = &Value{Tm: Var(sig, BoolS)}
	return func(prev *State) bool {
		pv, ok := prev.env[havocSigObj]
		return !ok || pv.Tm.Name != sig
	}
}

var havocSigObj types.Object = types.NewVar(token.NoPos, nil, "havoc-signature", types.Typ[types.Bool])

func (x *Exec) havocSig(wl *WriteLog, ws []heapWrite) string {
	var parts []string
	for o := range wl.vars {
		parts = append(parts, fmt.Sprintf("v%p", o))
	}
	for _, w := range ws {
		if w.ref == nil {
			parts = append(parts, w.key+"*")
		} else {
			parts = append(parts, fmt.Sprintf("%s@%d", w.key, w.ref.id))
		}
	}
	sortStrings(parts)
	return strings.Join(dedup(parts), ";")
}

func (x *Exec) maxSym(t *Term) int {
	vars := map[*Term]bool{}
	t.collect(vars, map[string]bool{}, map[*Term]bool{}, map[*Term]int{})
	m := 0
	for v := range vars {
		if i := x.symMark[v]; i > m {
			m = i
		}
	}
	return m
}

// symbolicLike builds a fresh symbolic value with the same shape as v.
func (x *Exec) symbolicLike(st *State, v *Value, hint string) *Value {
	if v.Fs != nil {
		n := &Value{T: v.T}
		for i, f := range v.Fs {
			n.Fs = append(n.Fs, x.symbolicLike(st, f, fmt.Sprintf("%s.%d", hint, i)))
		}
		return n
	}
	if v.P != nil {
		if !v.P.simple() {
			panic(engErr("loop assigns interior pointer variable %s", hint))
		}
		tm := x.fresh(hint, IntS)
		x.vc.assume(And(Ge(tm, IntLit(0)), Lt(tm, st.allocTop())))
		return &Value{T: v.T, P: &Pointer{Base: tm}}
	}
	tm := x.fresh(hint, v.Tm.S)
	nv := &Value{T: v.T, Tm: tm}
	x.assumeTyped(v.T, tm)
	if v.T != nil {
		x.assumeAllocated(st, v.T, tm)
	}
	return nv
}

func (x *Exec) fresh(hint string, s *Sort) *Term {
	return x.vc.fresh(hint, s)
}

// ---------- range ----------

func (x *Exec) execRange(s *ast.RangeStmt, st *State, label string) *State {
	info := x.fr().info
	xt := info.TypeOf(s.X)
	spec, ord := x.loopSpec(s)
	coll := x.eval(s.X, st)
	var keyObj, valObj types.Object
	getObj := func(e ast.Expr) types.Object {
		if e == nil {
			return nil
		}
		id, ok := e.(*ast.Ident)
		if !ok {
			panic(engErr("range target must be an identifier at %s", x.pos(s)))
		}
		if id.Name == "_" {
			return nil
		}
		if s.Tok == token.DEFINE {
			return info.Defs[id]
		}
		return info.Uses[id]
	}
	keyObj, valObj = getObj(s.Key), getObj(s.Value)
	// hidden index variable
	idx := types.NewVar(s.Pos(), x.fr().pkg, fmt.Sprintf("range%d_i", ord), types.Typ[types.Int])
	var n *Term
	var elemAt func(st *State, i *Term) *Value
	switch u := types.Unalias(xt).Underlying().(type) {
	case *types.Slice:
		n = SLen(coll.Tm)
		elemAt = func(st *State, i *Term) *Value {
			p := &Pointer{Base: SArr(coll.Tm), Idx: Add(SOff(coll.Tm), i), ArrT: types.NewArray(u.Elem(), -1)}
			return x.load(st, p, u.Elem())
		}
	case *types.Array:
		n = IntLit(u.Len())
		elemAt = func(st *State, i *Term) *Value { return x.typed(u.Elem(), Select(coll.Tm, i)) }
	case *types.Pointer:
		at := u.Elem().Underlying().(*types.Array)
		n = IntLit(at.Len())
		elemAt = func(st *State, i *Term) *Value {
			p := &Pointer{Base: coll.P.Base, OwnerKey: coll.P.OwnerKey, Path: coll.P.Path, Idx: i, ArrT: u.Elem()}
			return x.load(st, p, at.Elem())
		}
	case *types.Basic:
		if u.Info()&types.IsInteger == 0 {
			panic(engErr("range over %s not supported at %s", xt, x.pos(s)))
		}
		n = x.toInt(coll)
	case *types.Map:
		return x.execRangeMap(s, st, label, coll, u, keyObj, valObj, spec, ord)
	default:
		panic(engErr("range over %s not supported at %s", xt, x.pos(s)))
	}
	st.env[idx] = &Value{T: types.Typ[types.Int], Tm: IntLit(0)}
	setKV := func(st *State) {
		i := st.env[idx].Tm
		if keyObj != nil {
			kv := x.coerce(&Value{T: types.Typ[types.Int], Tm: i}, keyObj.Type())
			if x.fr().boxed[keyObj] {
				panic(engErr("boxed range key"))
			}
			st.setVar(keyObj, kv)
		}
		if valObj != nil && elemAt != nil {
			st.setVar(valObj, elemAt(st, i))
		}
	}
	if keyObj != nil {
		st.env[keyObj] = x.coerce(&Value{T: types.Typ[types.Int], Tm: IntLit(0)}, keyObj.Type())
	}
	if valObj != nil {
		st.env[valObj] = x.zero(valObj.Type())
	}
	cond := func(st *State) *Term { return Lt(st.env[idx].Tm, n) }
	body := func(st *State) *State {
		setKV(st)
		return x.execBlock(s.Body.List, st)
	}
	post := func(st *State) *State {
		st.setVar(idx, &Value{T: types.Typ[types.Int], Tm: Add(st.env[idx].Tm, IntLit(1))})
		return st
	}
	sc := &SpecScope{names: map[string]*Value{}}
	scope := sc
	scope.dyn = func(st *State) {
		sc.names["range_i"] = st.env[idx]
		sc.names[fmt.Sprintf("range%d_i", ord)] = st.env[idx]
	}
	return x.runLoop(spec, ord, label, st, cond, body, post, s, scope)
}

// execRangeMap: nondeterministic iteration order modelled with a ghost visited set.
func (x *Exec) execRangeMap(s *ast.RangeStmt, st *State, label string, coll *Value, mt *types.Map,
	keyObj, valObj types.Object, spec *LoopSpec, ord int) *State {
	if spec == nil || len(spec.Inv) == 0 {
		panic(engErr("range over map at %s needs an invariant", x.pos(s)))
	}
	ks := x.sortOf(mt.Key())
	visSort := ArrS(ks, BoolS)
	vis := types.NewVar(s.Pos(), x.fr().pkg, fmt.Sprintf("range%d_visited", ord), types.Typ[types.Bool])
	cur := types.NewVar(s.Pos(), x.fr().pkg, fmt.Sprintf("range%d_key", ord), mt.Key())
	cnt := types.NewVar(s.Pos(), x.fr().pkg, fmt.Sprintf("range%d_count", ord), types.Typ[types.Int])
	st.env[cnt] = &Value{T: types.Typ[types.Int], Tm: IntLit(0)}
	st.env[vis] = &Value{Tm: ConstArray(visSort, False)}
	st.env[cur] = x.zero(mt.Key())
	if keyObj != nil {
		st.env[keyObj] = x.zero(keyObj.Type())
	}
	if valObj != nil {
		st.env[valObj] = x.zero(valObj.Type())
	}
	mref := coll.term()
	domOf := func(st *State) *Term { return Select(st.hget(x.mapDomKey(mt)), mref) }
	dom0 := domOf(st)
	// exists unvisited key: skolem chosen fresh per evaluation of cond
	cond := func(st *State) *Term {
		k := x.fresh("mapkey", ks)
		x.assumeTyped(mt.Key(), k)
		d := domOf(st)
		v := st.env[vis].Tm
		has := x.fresh("more", BoolS)
		// has <=> exists unvisited key in dom; k is a witness when has
		x.vc.assume(Implies(has, And(Select(d, k), Not(Select(v, k)))))
		q := Var("qk!", ks)
		if d == dom0 {
			// |visited| is tracked by a ghost counter; visited ⊆ dom, and while an unvisited key
			// exists |visited| < |dom| = len(map)  (finite-set cardinality, engine axiom)
			n := st.env[cnt].Tm
			ml := x.mapLen(st, mref)
			x.vc.assume(And(Le(IntLit(0), n), Le(n, ml), Implies(has, Lt(n, ml)), Implies(Not(has), Eq(n, ml))))
			// the loop does not modify the map: visited ⊆ dom always, so exit means visited = dom
			x.vc.assume(Implies(Not(has), mk("=", "", BoolS, nil, v, d)))
			x.vc.assume(Forall([]*Term{q}, Implies(mk("select", "", BoolS, nil, v, q), mk("select", "", BoolS, nil, d, q)), mk("select", "", BoolS, nil, v, q)))
		} else {
			x.vc.assume(Implies(Not(has), Forall([]*Term{q}, Implies(mk("select", "", BoolS, nil, d, q), mk("select", "", BoolS, nil, v, q)), mk("select", "", BoolS, nil, v, q))))
		}
		st.setVar(cur, &Value{T: mt.Key(), Tm: k})
		return has
	}
	body := func(st *State) *State {
		k := st.env[cur].Tm
		if keyObj != nil {
			st.setVar(keyObj, &Value{T: keyObj.Type(), Tm: k})
		}
		if valObj != nil {
			st.setVar(valObj, x.mapLoad(st, mt, mref, k))
		}
		return x.execBlock(s.Body.List, st)
	}
	post := func(st *State) *State {
		st.setVar(vis, &Value{Tm: x.vc.define("vis", Store(st.env[vis].Tm, st.env[cur].Tm, True))})
		st.setVar(cnt, &Value{T: types.Typ[types.Int], Tm: Add(st.env[cnt].Tm, IntLit(1))})
		return st
	}
	sc := &SpecScope{names: map[string]*Value{}}
	sc.dyn = func(st *State) {
		sc.names["visited"] = st.env[vis]
		sc.names[fmt.Sprintf("visited%d", ord)] = st.env[vis]
	}
	return x.runLoop(spec, ord, label, st, cond, body, post, s, sc)
}

// ---------- switch ----------

func (x *Exec) execSwitch(s *ast.SwitchStmt, st *State, label string) *State {
	if s.Init != nil {
		st = x.execStmt(s.Init, st)
		if st == nil {
			return nil
		}
	}
	var tag *Value
	if s.Tag != nil {
		tag = x.eval(s.Tag, st)
	}
	f := x.fr()
	lc := &loopCtx{label: label, isSwitch: true}
	f.loops = append(f.loops, lc)
	defer func() { f.loops = f.loops[:len(f.loops)-1] }()
	var outs []*State
	rest := st
	var def *ast.CaseClause
	for _, cc := range s.Body.List {
		cl := cc.(*ast.CaseClause)
		if cl.List == nil {
			def = cl
			continue
		}
		if rest == nil || rest.guard == False {
			break
		}
		var conds []*Term
		for _, e := range cl.List {
			if tag != nil {
				v := x.eval(e, rest)
				conds = append(conds, x.equal(tag, v))
			} else {
				conds = append(conds, x.evalCond(e, rest))
			}
		}
		c := x.nameBool(Or(conds...))
		hit := rest.clone()
		hit.guard = x.nameBool(And(rest.guard, c))
		rest.guard = x.nameBool(And(rest.guard, Not(c)))
		if hit.guard != False {
			for _, bs := range cl.Body {
				if br, ok := bs.(*ast.BranchStmt); ok && br.Tok == token.FALLTHROUGH {
					panic(engErr("fallthrough not supported at %s", x.pos(br)))
				}
			}
			outs = append(outs, x.execBlock(cl.Body, hit))
		}
	}
	if rest != nil && rest.guard != False {
		if def != nil {
			outs = append(outs, x.execBlock(def.Body, rest))
		} else {
			outs = append(outs, rest)
		}
	}
	outs = append(outs, lc.breaks...)
	return x.mergeAll(outs)
}

func (x *Exec) execTypeSwitch(s *ast.TypeSwitchStmt, st *State, label string) *State {
	if s.Init != nil {
		st = x.execStmt(s.Init, st)
	}
	var subj ast.Expr
	var bind *ast.Ident
	switch a := s.Assign.(type) {
	case *ast.ExprStmt:
		subj = a.X.(*ast.TypeAssertExpr).X
	case *ast.AssignStmt:
		subj = a.Rhs[0].(*ast.TypeAssertExpr).X
		bind = a.Lhs[0].(*ast.Ident)
	}
	v := x.eval(subj, st)
	f := x.fr()
	lc := &loopCtx{label: label, isSwitch: true}
	f.loops = append(f.loops, lc)
	defer func() { f.loops = f.loops[:len(f.loops)-1] }()
	var outs []*State
	rest := st
	var def *ast.CaseClause
	for _, cc := range s.Body.List {
		cl := cc.(*ast.CaseClause)
		if cl.List == nil {
			def = cl
			continue
		}
		var conds []*Term
		var oneT types.Type
		for _, e := range cl.List {
			t := f.info.TypeOf(e)
			if b, ok := t.(*types.Basic); ok && b.Kind() == types.UntypedNil {
				conds = append(conds, Eq(v.term(), IntLit(0)))
				continue
			}
			oneT = t
			conds = append(conds, x.hasType(v, t))
		}
		c := Or(conds...)
		hit := rest.clone()
		hit.guard = And(rest.guard, c)
		rest.guard = And(rest.guard, Not(c))
		if hit.guard != False {
			if bind != nil {
				if obj := f.info.Implicits[cl]; obj != nil {
					bv := v
					if len(cl.List) == 1 && oneT != nil {
						bv = x.assertTo(v, oneT)
					}
					hit.setVar(obj, bv)
				}
			}
			outs = append(outs, x.execBlock(cl.Body, hit))
		}
	}
	if rest.guard != False {
		if def != nil {
			if bind != nil {
				if obj := f.info.Implicits[def]; obj != nil {
					rest.setVar(obj, v)
				}
			}
			outs = append(outs, x.execBlock(def.Body, rest))
		} else {
			outs = append(outs, rest)
		}
	}
	outs = append(outs, lc.breaks...)
	return x.mergeAll(outs)
}

func sortStrings(s []string) {
	for i := 1; i < len(s); i++ {
		for j := i; j > 0 && s[j] < s[j-1]; j-- {
			s[j], s[j-1] = s[j-1], s[j]
		}
	}
}

func dedup(s []string) []string {
	var out []string
	for i, v := range s {
		if i == 0 || v != s[i-1] {
			out = append(out, v)
		}
	}
	return out
}

// loopHavocKey: the heap map is listed in a "loop N havoc" clause (by its ghost or field name).
func loopHavocKey(spec *LoopSpec, key string) bool {
	if spec == nil {
		return false
	}
	for _, h := range spec.Havoc {
		if key == h || key == "G!"+h || strings.HasSuffix(key, "!"+h) {
			return true
		}
	}
	return false
}


// runDefers executes the deferred calls of this path in reverse order (results are already evaluated).
func (x *Exec) runDefers(st *State) {
	if len(x.frames) != 1 {
		return
	}
	for i := len(st.defers) - 1; i >= 0; i-- {
		x.evalCall(st.defers[i], st)
	}
	st.defers = nil
}

// Ownership rule for math/big: a big.Int value (or a struct embedding one by value) owns its word
// buffer. Copying such a value out of another live object by plain assignment or in a composite
// literal makes two values share one buffer, so a later in-place operation on one corrupts the other.
// Copies from a local variable of the function (a move of a temporary) and from call results are
// allowed. The obligation is a safety-class obligation named ownership:bigint-copy.
func (x *Exec) checkBigCopy(st *State, rhs ast.Expr) {
	if x.dry > 0 || len(x.frames) != 1 || x.c == nil || x.c.Opts["ownership"] == "" {
		return // opt-in per contract (`opt ownership bigint`), checked in the function itself only
	}
	t := x.typeOf(rhs)
	if t == nil || !containsBigIntValue(t, 0) {
		return
	}
	e := rhs
	for {
		p, ok := e.(*ast.ParenExpr)
		if !ok {
			break
		}
		e = p.X
	}
	switch v := e.(type) {
	case *ast.Ident:
		if obj, ok := x.fr().info.Uses[v].(*types.Var); ok && !obj.IsField() && obj.Parent() != nil && obj.Parent() != obj.Pkg().Scope() {
			return // local variable (incl. parameters passed by value): a move
		}
	case *ast.SelectorExpr, *ast.IndexExpr:
		// a field or element of another object: a copy that shares the buffer
	case *ast.StarExpr:
		if _, isCall := v.X.(*ast.CallExpr); isCall {
			return // *f(): the pointee is a fresh temporary
		}
	default:
		return // calls, literals, conversions
	}
	x.oblige(st, "ownership", "bigint-copy", False, rhs)
}

func containsBigIntValue(t types.Type, depth int) bool {
	if depth > 3 {
		return false
	}
	t = types.Unalias(t)
	if n, ok := t.(*types.Named); ok && n.Obj().Pkg() != nil && n.Obj().Pkg().Path() == "math/big" && n.Obj().Name() == "Int" {
		return true
	}
	if s, ok := t.Underlying().(*types.Struct); ok {
		if n, ok := t.(*types.Named); ok && n.Obj().Pkg() != nil && !strings.HasPrefix(n.Obj().Pkg().Path(), modPath) {
			return false // only structs of this module are looked into
		}
		for i := 0; i < s.NumFields(); i++ {
			if containsBigIntValue(s.Field(i).Type(), depth+1) {
				return true
			}
		}
	}
	return false
}
