package main

// Contract files (*.gocv): Gobra-flavoured, line oriented.
//
//   package share/vss/pedersen          -- module-relative package of the following funcs
//   func Aggregator.DealCertified        -- contract for a function/method of that package
//     mode obj|int|bv
//     prop C10 C11
//     requires [@label] <expr>
//     ensures  [@label] <expr>
//     modifies <lvalue>, <lvalue> ...
//     loop <ordinal> invariant [@label] <expr>
//     loop <ordinal> unroll
//     inline | trusted | panics ok | safety off | overflow on | nonnil <param>
//   extern kyber.Scalar.Add(a, b)        -- contract for an interface / library function
//     ...same clauses; receiver is `recv`, results are `result`, `result1`...
//   type math/big.Int = val:Int          -- ghost-struct override for a named type
//   lemma name(k Int, ...)               -- ghost lemma: requires/ensures discharged by solver alone
//
// Expressions use Go syntax (parsed with go/parser) plus:  a ==> b,
// forall(k, body) / forall(k, lo, hi, body), old(e), result, fresh(e), dyn(e),
// and every function declared in the SMT prelude.

import (
	"bufio"
	"fmt"
	"os"
	"path/filepath"
	"sort"
	"strconv"
	"strings"
)

type Clause struct {
	Assumed bool // exported to callers but not checked at the definition (listed as an assumption)
	Local bool // checked at the definition only (may name locals of the function); not assumed by callers
	Label string
	Src   string
	File  string
	Line  int
	Cut   []string // locals whose defining equations are left out of this obligation (they are arbitrary values)
}

type LoopSpec struct {
	Ghost    []Clause // Label = name, Src = expression captured at loop entry
	Inv      []Clause
	Assert   []Clause // proof steps: checked at the end of the body (before the increment), then assumed
	Head     []Clause // Label = name, Src = expression captured at the head of the (arbitrary) iteration; for use in asserts
	Unroll   bool
	WritesFresh bool // every heap write of the loop targets an object allocated after function entry (checked)
	Modifies []string
	Havoc    []string
}

type Contract struct {
	Key      string // "<pkgrel>.<Type>.<Method>" or "<pkgrel>.<Func>"
	Extern   bool
	Params   []string // extern only
	Mode     string   // obj|int|bv
	Props    []string
	Requires []Clause
	Ensures  []Clause
	Modifies []string
	HasMod   bool
	Loops    map[int]*LoopSpec
	Inline   bool
	Trusted  bool
	PanicsOK bool
	Safety   bool
	Overflow bool
	Wraps    bool
	NoAlias  bool
	Pure     bool
	NoAlloc  bool // the callee allocates nothing that the caller can observe
	Asserts  map[string]Clause
	File     string
	Line     int
	Opts     map[string]string
}

type TypeOverride struct {
	Mode   string // "" = always; otherwise only in functions verified in this mode (e.g. "ring")
	Fields []string
	Sorts  []*Sort
}

type Lemma struct {
	Name     string
	Params   []string
	Sorts    []*Sort
	Requires []Clause
	Ensures  []Clause
	Props    []string
	File     string
	Line     int
	Induct   string   // Int parameter to induct on (induction hypothesis at n-1 assumed for n > 0)
	Patterns []Clause // each: comma-separated terms forming one (multi-)pattern, for use as an axiom
}

type ContractDB struct {
	ZeroInit map[string][2]string // named type -> (ghost field, prelude constant) established for its zero value
	C      map[string]*Contract
	Types  map[string]*TypeOverride
	Lemmas []*Lemma
	Order  []string
}

func splitLabel(s string) (string, string) {
	s = strings.TrimSpace(s)
	if strings.HasPrefix(s, "@") {
		i := strings.IndexAny(s, " \t")
		if i > 0 {
			return s[1:i], strings.TrimSpace(s[i:])
		}
	}
	return "", s
}

func loadContracts(dir string) (*ContractDB, error) {
	db := &ContractDB{C: map[string]*Contract{}, Types: map[string]*TypeOverride{}, ZeroInit: map[string][2]string{}}
	files, _ := filepath.Glob(filepath.Join(dir, "*.gocv"))
	sort.Strings(files)
	for _, f := range files {
		if err := db.loadFile(f); err != nil {
			return nil, err
		}
	}
	return db, nil
}

func (db *ContractDB) loadFile(fn string) error {
	fh, err := os.Open(fn)
	if err != nil {
		return err
	}
	defer fh.Close()
	sc := bufio.NewScanner(fh)
	sc.Buffer(make([]byte, 1<<20), 1<<20)
	pkg := ""
	var cur *Contract
	var curLemma *Lemma
	ln := 0
	var pending string
	pendLine := 0
	process := func(line string, ln int) error {
		t := strings.TrimSpace(line)
		if t == "" || strings.HasPrefix(t, "#") {
			return nil
		}
		if i := strings.Index(t, " #"); i >= 0 && !strings.Contains(t, "\"") {
			t = strings.TrimSpace(t[:i])
		}
		word, rest := t, ""
		if i := strings.IndexAny(t, " \t"); i > 0 {
			word, rest = t[:i], strings.TrimSpace(t[i:])
		}
		mkClause := func(s string) Clause {
			l, e := splitLabel(s)
			cl := Clause{Label: l, Src: e, File: filepath.Base(fn), Line: ln}
			// optional prefix "cut(a, b, c) :" on white-box postconditions
			if t := strings.TrimSpace(e); strings.HasPrefix(t, "cut(") {
				if i := strings.Index(t, ") :"); i > 0 {
					for _, n := range strings.Split(t[4:i], ",") {
						cl.Cut = append(cl.Cut, strings.TrimSpace(n))
					}
					cl.Src = strings.TrimSpace(t[i+3:])
				}
			}
			return cl
		}
		switch word {
		case "package":
			pkg = rest
			cur, curLemma = nil, nil
		case "zeroinit":
			f := strings.Fields(rest)
			if len(f) != 3 {
				return fmt.Errorf("%s:%d: zeroinit <type> <ghost> <constant>", fn, ln)
			}
			db.ZeroInit[f[0]] = [2]string{f[1], f[2]}
		case "type":
			// type path.Name = f1:Sort f2:Sort
			parts := strings.SplitN(rest, "=", 2)
			if len(parts) != 2 {
				return fmt.Errorf("%s:%d: bad type override", fn, ln)
			}
			to := &TypeOverride{}
			for _, fs := range strings.Fields(parts[1]) {
				if strings.HasPrefix(fs, "@") {
					to.Mode = fs[1:]
					continue
				}
				kv := strings.SplitN(fs, ":", 2)
				if len(kv) != 2 {
					return fmt.Errorf("%s:%d: bad type override field %q", fn, ln, fs)
				}
				to.Fields = append(to.Fields, kv[0])
				to.Sorts = append(to.Sorts, parseSort(strings.ReplaceAll(kv[1], "_", " ")))
			}
			db.Types[strings.TrimSpace(parts[0])] = to
		case "func", "extern":
			c := &Contract{Loops: map[int]*LoopSpec{}, Safety: true, File: filepath.Base(fn), Line: ln, Asserts: map[string]Clause{}, Opts: map[string]string{}}
			name := rest
			if i := strings.Index(rest, "("); i >= 0 {
				name = strings.TrimSpace(rest[:i])
				ps := strings.TrimSuffix(strings.TrimSpace(rest[i+1:]), ")")
				for _, p := range strings.Split(ps, ",") {
					if p = strings.TrimSpace(p); p != "" {
						c.Params = append(c.Params, p)
					}
				}
			}
			if word == "extern" {
				c.Extern = true
				c.Key = name
				c.Trusted = true
			} else {
				c.Key = pkg + "." + name
			}
			if _, dup := db.C[c.Key]; dup {
				return fmt.Errorf("%s:%d: duplicate contract %s", fn, ln, c.Key)
			}
			db.C[c.Key] = c
			db.Order = append(db.Order, c.Key)
			cur, curLemma = c, nil
		case "lemma":
			l := &Lemma{File: filepath.Base(fn), Line: ln}
			i := strings.Index(rest, "(")
			if i < 0 {
				return fmt.Errorf("%s:%d: lemma needs params", fn, ln)
			}
			l.Name = strings.TrimSpace(rest[:i])
			ps := strings.TrimSuffix(strings.TrimSpace(rest[i+1:]), ")")
			for _, p := range strings.Split(ps, ",") {
				p = strings.TrimSpace(p)
				if p == "" {
					continue
				}
				kv := strings.Fields(p)
				if len(kv) < 2 {
					return fmt.Errorf("%s:%d: lemma param %q needs a sort", fn, ln, p)
				}
				l.Params = append(l.Params, kv[0])
				l.Sorts = append(l.Sorts, parseSort(strings.Join(kv[1:], " ")))
			}
			db.Lemmas = append(db.Lemmas, l)
			curLemma, cur = l, nil
		default:
			if curLemma != nil {
				switch word {
				case "requires":
					curLemma.Requires = append(curLemma.Requires, mkClause(rest))
				case "ensures":
					curLemma.Ensures = append(curLemma.Ensures, mkClause(rest))
				case "prop":
					curLemma.Props = append(curLemma.Props, strings.Fields(rest)...)
				case "induct":
					curLemma.Induct = strings.TrimSpace(rest)
				case "pattern":
					curLemma.Patterns = append(curLemma.Patterns, mkClause(rest))
				default:
					return fmt.Errorf("%s:%d: unknown lemma clause %q", fn, ln, word)
				}
				return nil
			}
			if cur == nil {
				return fmt.Errorf("%s:%d: clause outside func: %s", fn, ln, t)
			}
			switch word {
			case "mode":
				cur.Mode = rest
			case "prop":
				cur.Props = append(cur.Props, strings.Fields(rest)...)
			case "requires":
				cur.Requires = append(cur.Requires, mkClause(rest))
			case "ensures":
				cur.Ensures = append(cur.Ensures, mkClause(rest))
			case "ensures_assumed":
				c := mkClause(rest)
				c.Assumed = true
				cur.Ensures = append(cur.Ensures, c)
			case "ensures_local":
				c := mkClause(rest)
				c.Local = true
				cur.Ensures = append(cur.Ensures, c)
			case "assert":
				c := mkClause(rest)
				cur.Asserts[c.Label] = c
			case "modifies":
				cur.HasMod = true
				if rest != "nothing" {
					for _, m := range splitTop(rest, ',') {
						cur.Modifies = append(cur.Modifies, strings.TrimSpace(m))
					}
				}
			case "loop":
				f := strings.Fields(rest)
				if len(f) < 2 {
					return fmt.Errorf("%s:%d: bad loop clause", fn, ln)
				}
				n, err := strconv.Atoi(f[0])
				if err != nil {
					return fmt.Errorf("%s:%d: bad loop ordinal", fn, ln)
				}
				ls := cur.Loops[n]
				if ls == nil {
					ls = &LoopSpec{}
					cur.Loops[n] = ls
				}
				body := strings.TrimSpace(strings.TrimPrefix(strings.TrimSpace(strings.TrimPrefix(rest, f[0])), f[1]))
				switch f[1] {
				case "invariant":
					ls.Inv = append(ls.Inv, mkClause(body))
				case "assert":
					ls.Assert = append(ls.Assert, mkClause(body))
				case "ghost":
					// loop N ghost name = expr
					kv := strings.SplitN(body, "=", 2)
					if len(kv) != 2 {
						return fmt.Errorf("%s:%d: bad ghost clause", fn, ln)
					}
					ls.Ghost = append(ls.Ghost, Clause{Label: strings.TrimSpace(kv[0]), Src: strings.TrimSpace(kv[1]), File: filepath.Base(fn), Line: ln})
				case "head":
					kv := strings.SplitN(body, "=", 2)
					if len(kv) != 2 {
						return fmt.Errorf("%s:%d: bad head clause", fn, ln)
					}
					ls.Head = append(ls.Head, Clause{Label: strings.TrimSpace(kv[0]), Src: strings.TrimSpace(kv[1]), File: filepath.Base(fn), Line: ln})
				case "unroll":
					ls.Unroll = true
				case "writes_fresh":
					ls.WritesFresh = true
				case "modifies":
					for _, m := range splitTop(body, ',') {
						ls.Modifies = append(ls.Modifies, strings.TrimSpace(m))
					}
				case "havoc":
					ls.Havoc = append(ls.Havoc, strings.Fields(body)...)
				default:
					return fmt.Errorf("%s:%d: bad loop clause %q", fn, ln, f[1])
				}
			case "inline":
				cur.Inline = true
			case "trusted":
				cur.Trusted = true
			case "pure":
				cur.Pure = true
			case "noalloc":
				cur.NoAlloc = true
			case "panics":
				cur.PanicsOK = rest == "ok"
			case "safety":
				cur.Safety = rest != "off"
			case "overflow":
				cur.Overflow = rest == "on"
			case "wraps":
				cur.Wraps = true
			case "opt":
				kv := strings.SplitN(rest, " ", 2)
				if len(kv) == 2 {
					cur.Opts[kv[0]] = strings.TrimSpace(kv[1])
				} else {
					cur.Opts[kv[0]] = "1"
				}
			default:
				return fmt.Errorf("%s:%d: unknown clause %q", fn, ln, word)
			}
		}
		return nil
	}
	for sc.Scan() {
		ln++
		line := sc.Text()
		// continuation: trailing backslash
		if strings.HasSuffix(strings.TrimRight(line, " \t"), "\\") {
			if pending == "" {
				pendLine = ln
			}
			pending += strings.TrimSuffix(strings.TrimRight(line, " \t"), "\\") + " "
			continue
		}
		if pending != "" {
			line = pending + line
			pending = ""
			if err := process(line, pendLine); err != nil {
				return err
			}
			continue
		}
		if err := process(line, ln); err != nil {
			return err
		}
	}
	return nil
}

// splitTop splits s on sep at parenthesis depth 0.
func splitTop(s string, sep byte) []string {
	var out []string
	depth := 0
	start := 0
	for i := 0; i < len(s); i++ {
		switch s[i] {
		case '(', '[', '{':
			depth++
		case ')', ']', '}':
			depth--
		default:
			if s[i] == sep && depth == 0 {
				out = append(out, s[start:i])
				start = i + 1
			}
		}
	}
	out = append(out, s[start:])
	return out
}

// rewriteImplies turns "a ==> b" (right associative, lowest precedence, at any
// parenthesis level) into "implies__(a, b)" so that go/parser accepts it.
func rewriteImplies(s string) string {
	// handle innermost-first by recursion over parenthesised groups
	var b strings.Builder
	i := 0
	for i < len(s) {
		if s[i] == '(' || s[i] == '[' {
			open, close := s[i], byte(')')
			if open == '[' {
				close = ']'
			}
			depth := 0
			j := i
			for ; j < len(s); j++ {
				if s[j] == open {
					depth++
				} else if s[j] == close {
					depth--
					if depth == 0 {
						break
					}
				}
			}
			if j >= len(s) {
				b.WriteString(s[i:])
				break
			}
			inner := s[i+1 : j]
			// function-call argument lists: rewrite each argument separately
			parts := splitTop(inner, ',')
			for k := range parts {
				parts[k] = rewriteImplies(parts[k])
			}
			b.WriteByte(open)
			b.WriteString(strings.Join(parts, ","))
			b.WriteByte(close)
			i = j + 1
			continue
		}
		b.WriteByte(s[i])
		i++
	}
	t := b.String()
	// now split top-level on ==>
	depth := 0
	for k := 0; k+2 < len(t); k++ {
		switch t[k] {
		case '(', '[':
			depth++
		case ')', ']':
			depth--
		}
		if depth == 0 && t[k] == '=' && t[k+1] == '=' && t[k+2] == '>' {
			lhs := t[:k]
			rhs := rewriteImplies(t[k+3:])
			return "implies__(" + lhs + ", " + rhs + ")"
		}
	}
	return t
}
