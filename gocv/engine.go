package main

// Engine: package loading, function index, Go-type → SMT-sort mapping.

import (
	"fmt"
	"go/ast"
	"go/token"
	"go/types"
	"os"
	"sort"
	"strings"

	"golang.org/x/tools/go/packages"
)

const modPath = "go.dedis.ch/kyber/v4"

type FuncInfo struct {
	Key  string
	Decl *ast.FuncDecl
	Pkg  *packages.Package
	Obj  *types.Func
}

type Engine struct {
	repo    string
	fset    *token.FileSet
	pkgs    map[string]*packages.Package
	funcs   map[string]*FuncInfo
	byObj   map[*types.Func]*FuncInfo
	db      *ContractDB
	pre     *Prelude
	typeIDs map[string]int64
	typeNames []string
	tags    string
	curMode string
}

func relPkg(path string) string {
	if path == modPath {
		return "kyber"
	}
	if strings.HasPrefix(path, modPath+"/") {
		return path[len(modPath)+1:]
	}
	return path
}

func recvTypeName(t types.Type) string {
	if p, ok := t.(*types.Pointer); ok {
		t = p.Elem()
	}
	switch n := t.(type) {
	case *types.Named:
		return n.Obj().Name()
	case *types.Alias:
		return n.Obj().Name()
	}
	return t.String()
}

func funcKey(fn *types.Func) string {
	pkg := ""
	if fn.Pkg() != nil {
		pkg = relPkg(fn.Pkg().Path())
	}
	sig := fn.Type().(*types.Signature)
	if r := sig.Recv(); r != nil {
		rt := r.Type()
		if p, ok := rt.(*types.Pointer); ok {
			rt = p.Elem()
		}
		if n, ok := rt.(*types.Named); ok && n.Obj().Pkg() != nil {
			pkg = relPkg(n.Obj().Pkg().Path())
		}
		return pkg + "." + recvTypeName(r.Type()) + "." + fn.Name()
	}
	return pkg + "." + fn.Name()
}

func (e *Engine) load(patterns []string) error {
	os.Setenv("PATH", "/opt/veriftools/go1.26.8/bin:"+os.Getenv("PATH"))
	os.Setenv("GOFLAGS", "-mod=mod")
	os.Setenv("GOPROXY", "off")
	os.Setenv("GOSUMDB", "off")
	os.Setenv("GOTOOLCHAIN", "local")
	e.fset = token.NewFileSet()
	flags := []string{"-tags=" + e.tags}
	cfg := &packages.Config{
		Mode: packages.NeedName | packages.NeedFiles | packages.NeedSyntax | packages.NeedTypes |
			packages.NeedTypesInfo | packages.NeedImports | packages.NeedDeps,
		Dir: e.repo, BuildFlags: flags, Fset: e.fset,
	}
	pkgs, err := packages.Load(cfg, patterns...)
	if err != nil {
		return err
	}
	e.pkgs = map[string]*packages.Package{}
	e.funcs = map[string]*FuncInfo{}
	e.byObj = map[*types.Func]*FuncInfo{}
	var errs []string
	packages.Visit(pkgs, nil, func(p *packages.Package) {
		if !strings.HasPrefix(p.PkgPath, modPath) {
			return
		}
		for _, pe := range p.Errors {
			errs = append(errs, pe.Error())
		}
		e.pkgs[p.PkgPath] = p
		for _, f := range p.Syntax {
			for _, d := range f.Decls {
				fd, ok := d.(*ast.FuncDecl)
				if !ok || fd.Body == nil {
					continue
				}
				obj, _ := p.TypesInfo.Defs[fd.Name].(*types.Func)
				if obj == nil {
					continue
				}
				fi := &FuncInfo{Key: funcKey(obj), Decl: fd, Pkg: p, Obj: obj}
				e.funcs[fi.Key] = fi
				e.byObj[obj] = fi
			}
		}
	})
	if len(errs) > 0 {
		return fmt.Errorf("package errors: %s", strings.Join(errs, "; "))
	}
	return nil
}

// patternsFor returns the go list patterns for the packages named in contracts.
func (e *Engine) patternsFor(keys []string) []string {
	set := map[string]bool{}
	for _, k := range keys {
		c := e.db.C[k]
		if c == nil || c.Extern {
			continue
		}
		pkg := contractPkg(k)
		if pkg == "kyber" {
			set["."] = true
		} else {
			set["./"+pkg] = true
		}
	}
	var out []string
	for p := range set {
		out = append(out, p)
	}
	sort.Strings(out)
	return out
}

func contractPkg(key string) string {
	// "share/vss/pedersen.Aggregator.DealCertified" -> "share/vss/pedersen"
	slash := strings.LastIndex(key, "/")
	dot := strings.Index(key[slash+1:], ".")
	return key[:slash+1+dot]
}

func (e *Engine) typeID(t types.Type) *Term {
	k := types.TypeString(t, func(p *types.Package) string { return relPkg(p.Path()) })
	id, ok := e.typeIDs[k]
	if !ok {
		id = int64(len(e.typeIDs) + 1)
		e.typeIDs[k] = id
		e.typeNames = append(e.typeNames, k)
	}
	return IntLit(id)
}

// ---------- type → sort ----------

func qualName(n *types.Named) string {
	if n.Obj().Pkg() == nil {
		return n.Obj().Name()
	}
	return relPkg(n.Obj().Pkg().Path()) + "." + n.Obj().Name()
}

func (e *Engine) override(t types.Type) (*TypeOverride, string) {
	t = types.Unalias(t)
	if n, ok := t.(*types.Named); ok {
		q := qualName(n)
		if o, ok := e.db.Types[q]; ok && (o.Mode == "" || o.Mode == e.curMode) {
			return o, q
		}
	}
	return nil, ""
}

type intInfo struct {
	w      int
	signed bool
}

func intTypeInfo(t types.Type) (intInfo, bool) {
	b, ok := t.Underlying().(*types.Basic)
	if !ok {
		return intInfo{}, false
	}
	switch b.Kind() {
	case types.Int8:
		return intInfo{8, true}, true
	case types.Int16:
		return intInfo{16, true}, true
	case types.Int32:
		return intInfo{32, true}, true
	case types.Int64, types.Int:
		return intInfo{64, true}, true
	case types.Uint8:
		return intInfo{8, false}, true
	case types.Uint16:
		return intInfo{16, false}, true
	case types.Uint32:
		return intInfo{32, false}, true
	case types.Uint64, types.Uint, types.Uintptr:
		return intInfo{64, false}, true
	case types.UntypedInt, types.UntypedRune:
		return intInfo{0, true}, true
	}
	return intInfo{}, false
}

func isIntLikeKind(t types.Type) bool {
	b, ok := t.Underlying().(*types.Basic)
	return ok && (b.Kind() == types.Int || b.Kind() == types.Uint || b.Kind() == types.Uintptr)
}

var StrS = UnS("Str")

// sortOf maps a Go type to the SMT sort of its values; ok=false for struct
// values (represented field-wise) and unsupported types.
func (e *Engine) sortOf(t types.Type, bv bool) (*Sort, bool) {
	t = types.Unalias(t)
	if o, _ := e.override(t); o != nil {
		if len(o.Sorts) == 1 {
			return o.Sorts[0], true
		}
		return nil, false
	}
	switch u := t.Underlying().(type) {
	case *types.Basic:
		switch {
		case u.Kind() == types.Bool || u.Kind() == types.UntypedBool:
			return BoolS, true
		case u.Info()&types.IsInteger != 0:
			if bv {
				ii, _ := intTypeInfo(u)
				if ii.w == 0 || isIntLikeKind(u) {
					return IntS, true
				}
				return BVS(ii.w), true
			}
			return IntS, true
		case u.Kind() == types.String || u.Kind() == types.UntypedString:
			return StrS, true
		case u.Kind() == types.UnsafePointer:
			return IntS, true
		case u.Kind() == types.UntypedNil:
			return IntS, true
		}
		return nil, false
	case *types.Pointer, *types.Interface, *types.Map, *types.Chan, *types.Signature:
		return IntS, true
	case *types.Slice:
		return SliceS, true
	case *types.Array:
		es, ok := e.sortOf(u.Elem(), bv)
		if !ok {
			return nil, false
		}
		return ArrS(IntS, es), true
	case *types.Struct:
		return nil, false
	case *types.TypeParam:
		return IntS, true
	}
	return nil, false
}

func isStructVal(t types.Type) bool {
	_, ok := types.Unalias(t).Underlying().(*types.Struct)
	return ok
}

func isPointer(t types.Type) bool {
	_, ok := types.Unalias(t).Underlying().(*types.Pointer)
	return ok
}

func isRefLike(t types.Type) bool {
	switch types.Unalias(t).Underlying().(type) {
	case *types.Pointer, *types.Interface, *types.Map, *types.Chan, *types.Signature:
		return true
	}
	return false
}
