package main

// Expression evaluation (real code). Spec-expression evaluation reuses these
// helpers through spec.go.

import (
	"fmt"
	"go/ast"
	"go/constant"
	"go/token"
	"go/types"
	"math/big"
	"strings"
)

func (x *Exec) typeOf(e ast.Expr) types.Type { return x.fr().info.TypeOf(e) }

func (x *Exec) evalMulti(e ast.Expr, st *State) []*Value {
	e = ast.Unparen(e)
	switch e := e.(type) {
	case *ast.CallExpr:
		return x.evalCall(e, st)
	case *ast.TypeAssertExpr:
		v := x.eval(e.X, st)
		t := x.typeOf(e.Type)
		ok := x.hasType(v, t)
		res := x.assertTo(v, t)
		// on failure the result is the zero value
		z := x.zero(t)
		return []*Value{x.mergeVal(ok, res, z), {T: types.Typ[types.Bool], Tm: ok}}
	case *ast.IndexExpr:
		// v, ok := m[k]
		mt, isMap := types.Unalias(x.typeOf(e.X)).Underlying().(*types.Map)
		if !isMap {
			break
		}
		m := x.eval(e.X, st)
		k := x.coerce(x.eval(e.Index, st), mt.Key())
		dom := Select(st.hget(x.mapDomKey(mt)), m.term())
		ok := Select(dom, k.term())
		val := x.mapLoad(st, mt, m.term(), k.term())
		return []*Value{x.mergeVal(ok, val, x.zero(mt.Elem())), {T: types.Typ[types.Bool], Tm: ok}}
	}
	return []*Value{x.eval(e, st)}
}

func (x *Exec) constValue(tv types.TypeAndValue) *Value {
	t := tv.Type
	switch tv.Value.Kind() {
	case constant.Bool:
		return &Value{T: t, Tm: BoolLit(constant.BoolVal(tv.Value))}
	case constant.Int:
		bi, _ := new(big.Int).SetString(tv.Value.ExactString(), 10)
		srt, _ := x.eng.sortOf(t, x.bv)
		if srt != nil && srt.K == KBV {
			return &Value{T: t, Tm: BVLit(bi, srt.W)}
		}
		return &Value{T: t, Tm: IntLitB(bi)}
	case constant.String:
		return &Value{T: t, Tm: x.strLit(constant.StringVal(tv.Value))}
	}
	panic(engErr("unsupported constant kind %v", tv.Value.Kind()))
}

var strIDs = map[string]int64{}

func (x *Exec) strLit(s string) *Term {
	id, ok := strIDs[s]
	if !ok {
		id = int64(len(strIDs) + 1)
		strIDs[s] = id
	}
	return App("strlit", StrS, IntLit(id))
}

func (x *Exec) eval(e ast.Expr, st *State) *Value {
	info := x.fr().info
	if tv, ok := info.Types[e]; ok && tv.Value != nil {
		return x.constValue(tv)
	}
	switch e := e.(type) {
	case *ast.ParenExpr:
		return x.eval(e.X, st)
	case *ast.Ident:
		if e.Name == "nil" {
			if _, ok := info.Uses[e].(*types.Nil); ok {
				return &Value{T: types.Typ[types.UntypedNil], Tm: IntLit(0)}
			}
		}
		obj := info.Uses[e]
		if obj == nil {
			obj = info.Defs[e]
		}
		switch o := obj.(type) {
		case *types.Var:
			if v, ok := st.env[o]; ok {
				if x.fr().boxed[o] {
					return x.load(st, v.P, o.Type())
				}
				return v
			}
			// captured or package-level variable
			if o.Parent() == o.Pkg().Scope() {
				return x.global(o, st)
			}
			// variable of an enclosing inlined frame
			panic(engErr("variable %s not in scope at %s", e.Name, x.pos(e)))
		case *types.Const:
			return x.constValue(types.TypeAndValue{Type: o.Type(), Value: o.Val()})
		case *types.Func:
			return &Value{T: o.Type(), Tm: App("funcref", IntS, x.eng.typeID(types.NewPointer(o.Type())))}
		}
		panic(engErr("unsupported identifier %s at %s", e.Name, x.pos(e)))
	case *ast.BasicLit:
		panic(engErr("non-constant literal at %s", x.pos(e)))
	case *ast.BinaryExpr:
		if e.Op == token.LAND || e.Op == token.LOR {
			return x.shortCircuit(e, st)
		}
		l := x.eval(e.X, st)
		r := x.eval(e.Y, st)
		return x.binop(e.Op, l, r, x.typeOf(e), st, e)
	case *ast.UnaryExpr:
		switch e.Op {
		case token.AND:
			if cl, ok := ast.Unparen(e.X).(*ast.CompositeLit); ok {
				v := x.eval(cl, st)
				ref := x.alloc(st)
				x.store(st, &Pointer{Base: ref}, x.typeOf(cl), v)
				return &Value{T: x.typeOf(e), P: &Pointer{Base: ref}}
			}
			p := x.addrOf(e.X, st)
			if p == nil {
				panic(engErr("cannot take address of %T at %s", e.X, x.pos(e)))
			}
			return &Value{T: x.typeOf(e), P: p}
		case token.NOT:
			return &Value{T: x.typeOf(e), Tm: Not(x.eval(e.X, st).Tm)}
		case token.SUB:
			v := x.eval(e.X, st)
			zero := x.coerce(&Value{Tm: IntLit(0)}, v.T)
			return x.binop(token.SUB, zero, v, x.typeOf(e), st, e)
		case token.ADD:
			return x.eval(e.X, st)
		case token.XOR:
			v := x.eval(e.X, st)
			if v.Tm.S.K == KBV {
				return &Value{T: v.T, Tm: BVNot(v.Tm)}
			}
			ii, _ := intTypeInfo(v.T)
			if ii.signed {
				return &Value{T: v.T, Tm: Sub(NegT(v.Tm), IntLit(1))}
			}
			_, hi := intRange(ii)
			return &Value{T: v.T, Tm: Sub(IntLitB(hi), v.Tm)}
		}
		panic(engErr("unsupported unary %s at %s", e.Op, x.pos(e)))
	case *ast.StarExpr:
		v := x.eval(e.X, st)
		x.checkNonNil(st, v.P.Base, e)
		return x.load(st, v.P, x.typeOf(e))
	case *ast.SelectorExpr:
		return x.evalSelector(e, st)
	case *ast.IndexExpr:
		return x.evalIndex(e, st)
	case *ast.SliceExpr:
		return x.evalSliceExpr(e, st)
	case *ast.CallExpr:
		vs := x.evalCall(e, st)
		if len(vs) != 1 {
			panic(engErr("call used as single value returns %d values at %s", len(vs), x.pos(e)))
		}
		return vs[0]
	case *ast.CompositeLit:
		return x.evalComposite(e, st)
	case *ast.TypeAssertExpr:
		v := x.eval(e.X, st)
		t := x.typeOf(e.Type)
		// a failing single-value type assertion is a panic
		if c := x.fr().contract; !((c != nil && c.PanicsOK) || (x.c != nil && x.c.PanicsOK)) {
			x.oblige(st, "typeassert", types.TypeString(t, nil), x.hasType(v, t), e)
		}
		x.assume(st, x.hasType(v, t))
		return x.assertTo(v, t)
	case *ast.FuncLit:
		panic(engErr("function literal not supported at %s", x.pos(e)))
	}
	panic(engErr("unsupported expression %T at %s", e, x.pos(e)))
}

// globalInit evaluates the composite-literal initialiser of a package-level variable
// (assumed never reassigned: A-GLOBALS). The literal is materialised once per function run.
func (x *Exec) globalInit(o *types.Var, st *State) *Value {
	if v, ok := x.globalVals[o]; ok {
		return v
	}
	if ov, _ := x.eng.override(o.Type()); ov != nil {
		return nil // abstracted type: the constant is an opaque element
	}
	pk := x.eng.pkgs[o.Pkg().Path()]
	if pk == nil {
		return nil
	}
	for _, f := range pk.Syntax {
		for _, d := range f.Decls {
			gd, ok := d.(*ast.GenDecl)
			if !ok || gd.Tok != token.VAR {
				continue
			}
			for _, sp := range gd.Specs {
				vs := sp.(*ast.ValueSpec)
				for i, n := range vs.Names {
					if pk.TypesInfo.Defs[n] != o || i >= len(vs.Values) {
						continue
					}
					cl, ok := ast.Unparen(vs.Values[i]).(*ast.CompositeLit)
					if !ok {
						return nil
					}
					// evaluate in a pseudo-frame of the defining package
					fr := &frame{fi: x.fr().fi, info: pk.TypesInfo, pkg: pk.Types, boxed: map[types.Object]bool{}, boxRef: map[types.Object]*Term{}, loopOrd: map[ast.Node]int{}}
					x.frames = append(x.frames, fr)
					v := x.evalComposite(cl, st)
					x.frames = x.frames[:len(x.frames)-1]
					if x.globalVals == nil {
						x.globalVals = map[*types.Var]*Value{}
					}
					x.globalVals[o] = v
					x.note("package-level variable " + relPkg(o.Pkg().Path()) + "." + o.Name() + " read through its initialiser (assumed never reassigned)")
					return v
				}
			}
		}
	}
	return nil
}

func (x *Exec) globalAddr(o *types.Var) *Pointer {
	id := x.eng.typeID(types.NewNamed(types.NewTypeName(0, o.Pkg(), o.Name()+"!addr", nil), types.Typ[types.Int], nil))
	return &Pointer{Base: App("globref", IntS, id)}
}

func (x *Exec) global(o *types.Var, st *State) *Value {
	if v := x.globalInit(o, st); v != nil {
		return v
	}
	name := "glob!" + relPkg(o.Pkg().Path()) + "." + o.Name()
	t := o.Type()
	if !isRefLike(t) && !x.isStruct(t) {
		if _, isSlice := types.Unalias(t).Underlying().(*types.Slice); !isSlice {
			// value-typed package variable: lives at a fixed pseudo-reference so that &v and v agree
			return x.load(st, x.globalAddr(o), t)
		}
	}
	if x.isStruct(t) {
		// package-level struct value lives at a fixed pseudo-reference
		ref := App("globref", IntS, x.eng.typeID(types.NewPointer(types.NewNamed(types.NewTypeName(0, o.Pkg(), o.Name()+"!g", nil), types.Typ[types.Int], nil))))
		return x.load(st, &Pointer{Base: ref}, t)
	}
	tm := Var(name, x.sortOf(t))
	v := x.typed(t, tm)
	if isRefLike(t) {
		// package-level reference values exist before the function starts
		x.vc.assume(Lt(tm, x.old.allocTop()))
		if n, ok := types.Unalias(t).(*types.Named); ok && n.Obj().Name() == "error" {
			x.vc.assume(Gt(tm, IntLit(0)))
		}
		if strings.HasPrefix(o.Name(), "err") || strings.HasPrefix(o.Name(), "Err") {
			x.vc.assume(Gt(tm, IntLit(0)))
		}
	}
	return v
}

func (x *Exec) shortCircuit(e *ast.BinaryExpr, st *State) *Value {
	l := x.evalCond(e.X, st)
	c := l
	if e.Op == token.LOR {
		c = Not(l)
	}
	// evaluate RHS under guard ∧ c
	rst := st.clone()
	rst.guard = And(st.guard, c)
	var r *Term
	if rst.guard == False {
		r = False
	} else {
		r = x.evalCond(e.Y, rst)
	}
	// merge side effects back
	other := st.clone()
	other.guard = And(st.guard, Not(c))
	m := x.merge(rst, other)
	if m != nil {
		g := st.guard
		*st = *m
		st.guard = g
	}
	if e.Op == token.LAND {
		return &Value{T: types.Typ[types.Bool], Tm: And(l, r)}
	}
	return &Value{T: types.Typ[types.Bool], Tm: Or(l, r)}
}

func (x *Exec) checkNonNil(st *State, ref *Term, n ast.Node) {
	c := Not(Eq(ref, IntLit(0)))
	if c == True {
		return
	}
	x.oblige(st, "nil", "deref", c, n)
	x.assume(st, c)
}

// ---------- selectors ----------

func derefType(t types.Type) (types.Type, bool) {
	if p, ok := types.Unalias(t).Underlying().(*types.Pointer); ok {
		return p.Elem(), true
	}
	return t, false
}

func (x *Exec) evalSelector(e *ast.SelectorExpr, st *State) *Value {
	info := x.fr().info
	// package-qualified identifier
	if id, ok := e.X.(*ast.Ident); ok {
		if _, isPkg := info.Uses[id].(*types.PkgName); isPkg {
			switch o := info.Uses[e.Sel].(type) {
			case *types.Var:
				return x.global(o, st)
			case *types.Const:
				return x.constValue(types.TypeAndValue{Type: o.Type(), Value: o.Val()})
			case *types.Func:
				return &Value{T: o.Type(), Tm: App("funcref", IntS, x.eng.typeID(types.NewPointer(o.Type())))}
			}
			panic(engErr("unsupported package selector %s.%s", id.Name, e.Sel.Name))
		}
	}
	sel := info.Selections[e]
	if sel == nil {
		panic(engErr("no selection info for %s at %s", e.Sel.Name, x.pos(e)))
	}
	if sel.Kind() != types.FieldVal {
		// method value: an opaque function value determined by receiver and method
		recv := x.eval(e.X, st)
		var rt *Term
		if recv.Tm != nil && recv.Tm.S == IntS {
			rt = recv.Tm
		} else if recv.P != nil && recv.P.simple() {
			rt = recv.P.Base
		} else {
			rt = IntLit(0)
		}
		return &Value{T: x.typeOf(e), Tm: App("methodval", IntS, rt, x.eng.typeID(types.NewPointer(sel.Obj().Type())))}
	}
	if p := x.addrOf(e, st); p != nil {
		return x.load(st, p, x.typeOf(e))
	}
	// field of a struct rvalue
	v := x.eval(e.X, st)
	return x.fieldPath(v, sel.Index(), st, e)
}

func (x *Exec) fieldPath(v *Value, path []int, st *State, n ast.Node) *Value {
	for _, i := range path {
		if v.P != nil {
			x.checkNonNil(st, v.P.Base, n)
			et, _ := derefType(v.T)
			v = x.load(st, v.P, et)
		}
		if v.Fs == nil {
			panic(engErr("field access on non-struct value at %s", x.pos(n)))
		}
		v = v.Fs[i]
	}
	return v
}

// addrOf returns the heap location designated by an addressable expression, or
// nil if the expression lives in the (non-boxed) local environment.
func (x *Exec) addrOf(e ast.Expr, st *State) *Pointer {
	info := x.fr().info
	switch e := e.(type) {
	case *ast.ParenExpr:
		return x.addrOf(e.X, st)
	case *ast.Ident:
		obj, _ := info.Uses[e].(*types.Var)
		if obj == nil {
			obj, _ = info.Defs[e].(*types.Var)
		}
		if obj != nil && x.fr().boxed[obj] {
			if v, ok := st.env[obj]; ok {
				return v.P
			}
		}
		if obj != nil && obj.Pkg() != nil && obj.Parent() == obj.Pkg().Scope() && !isRefLike(obj.Type()) {
			return x.globalAddr(obj)
		}
		return nil
	case *ast.StarExpr:
		v := x.eval(e.X, st)
		x.checkNonNil(st, v.P.Base, e)
		return v.P
	case *ast.SelectorExpr:
		sel := info.Selections[e]
		if sel == nil || sel.Kind() != types.FieldVal {
			return nil
		}
		xt := x.typeOf(e.X)
		var base *Pointer
		curT := xt
		if et, isPtr := derefType(xt); isPtr {
			v := x.eval(e.X, st)
			x.checkNonNil(st, v.P.Base, e)
			base = v.P
			curT = et
		} else {
			base = x.addrOf(e.X, st)
			if base == nil {
				return nil
			}
		}
		return x.extendPath(base, curT, sel.Index(), st, e)
	case *ast.IndexExpr:
		xt := types.Unalias(x.typeOf(e.X)).Underlying()
		switch u := xt.(type) {
		case *types.Slice:
			s := x.eval(e.X, st)
			i := x.toInt(x.eval(e.Index, st))
			x.oblige(st, "bounds", "index", And(Le(IntLit(0), i), Lt(i, SLen(s.Tm))), e)
			x.assume(st, And(Le(IntLit(0), i), Lt(i, SLen(s.Tm))))
			return &Pointer{Base: SArr(s.Tm), Idx: Add(SOff(s.Tm), i), ArrT: types.NewArray(u.Elem(), -1)}
		case *types.Pointer:
			at, ok := u.Elem().Underlying().(*types.Array)
			if !ok {
				return nil
			}
			v := x.eval(e.X, st)
			x.checkNonNil(st, v.P.Base, e)
			i := x.toInt(x.eval(e.Index, st))
			x.checkIndex(st, i, IntLit(at.Len()), e)
			return &Pointer{Base: v.P.Base, OwnerKey: v.P.OwnerKey, Path: v.P.Path, Idx: i, ArrT: u.Elem()}
		case *types.Array:
			base := x.addrOf(e.X, st)
			if base == nil || base.Idx != nil {
				return nil
			}
			i := x.toInt(x.eval(e.Index, st))
			x.checkIndex(st, i, IntLit(u.Len()), e)
			return &Pointer{Base: base.Base, OwnerKey: base.OwnerKey, Path: base.Path, Idx: i, ArrT: x.typeOf(e.X)}
		}
		return nil
	}
	return nil
}

func (x *Exec) checkIndex(st *State, i, n *Term, node ast.Node) {
	c := And(Le(IntLit(0), i), Lt(i, n))
	if c == True {
		return
	}
	x.oblige(st, "bounds", "index", c, node)
	x.assume(st, c)
}

// extendPath follows a field index path from a pointer to a struct of type t.
func (x *Exec) extendPath(base *Pointer, t types.Type, path []int, st *State, n ast.Node) *Pointer {
	p := base
	for k, i := range path {
		if p.Idx != nil {
			if len(p.Path) != 0 {
				panic(engErr("field of array element inside a struct not supported at %s", x.pos(n)))
			}
			if _, isPtr := derefType(t); isPtr {
				panic(engErr("embedded pointer in array element not supported at %s", x.pos(n)))
			}
			fs, key := x.fieldsOf(t)
			np := &Pointer{Base: p.Base, Idx: p.Idx, ArrT: p.ArrT, OwnerKey: p.OwnerKey}
			if len(p.EPath) == 0 {
				np.OwnerKey = key
			}
			np.EPath = append(append([]string{}, p.EPath...), fs[i].Name)
			p = np
			t = fs[i].T
			continue
		}
		if et, isPtr := derefType(t); isPtr {
			// embedded pointer: load it
			v := x.load(st, p, t)
			x.checkNonNil(st, v.P.Base, n)
			p = v.P
			t = et
		}
		fs, key := x.fieldsOf(t)
		np := &Pointer{Base: p.Base, OwnerKey: p.OwnerKey}
		if len(p.Path) == 0 {
			np.OwnerKey = key
		}
		np.Path = append(append([]string{}, p.Path...), fs[i].Name)
		p = np
		t = fs[i].T
		_ = k
	}
	return p
}

// ---------- index / slice ----------

func (x *Exec) toInt(v *Value) *Term {
	if v.Tm.S == IntS {
		return v.Tm
	}
	if v.Tm.S.K == KBV {
		signed := false
		if ii, ok := intTypeInfo(v.T); ok {
			signed = ii.signed
		}
		return BV2Int(v.Tm, signed)
	}
	panic(engErr("integer expected, got sort %s", v.Tm.S))
}

func (x *Exec) evalIndex(e *ast.IndexExpr, st *State) *Value {
	xt := types.Unalias(x.typeOf(e.X)).Underlying()
	switch u := xt.(type) {
	case *types.Map:
		m := x.eval(e.X, st)
		k := x.coerce(x.eval(e.Index, st), u.Key())
		dom := Select(st.hget(x.mapDomKey(u)), m.term())
		ok := Select(dom, k.term())
		val := x.mapLoad(st, u, m.term(), k.term())
		return x.mergeVal(ok, val, x.zero(u.Elem()))
	case *types.Basic: // string indexing
		s := x.eval(e.X, st)
		i := x.toInt(x.eval(e.Index, st))
		x.checkIndex(st, i, App("strlen", IntS, s.Tm), e)
		return x.typed(types.Typ[types.Uint8], x.intToSort(App("strbyte", IntS, s.Tm, i), types.Typ[types.Uint8]))
	case *types.Signature:
		panic(engErr("generic instantiation not supported at %s", x.pos(e)))
	}
	if p := x.addrOf(e, st); p != nil {
		return x.load(st, p, x.typeOf(e))
	}
	// array rvalue
	a := x.eval(e.X, st)
	at, ok := xt.(*types.Array)
	if !ok {
		panic(engErr("unsupported index base %s at %s", xt, x.pos(e)))
	}
	i := x.toInt(x.eval(e.Index, st))
	x.checkIndex(st, i, IntLit(at.Len()), e)
	return x.typed(at.Elem(), Select(a.Tm, i))
}

func (x *Exec) intToSort(t *Term, gt types.Type) *Term {
	s := x.sortOf(gt)
	if s.K == KBV && t.S == IntS {
		return Int2BV(t, s.W)
	}
	return t
}

func (x *Exec) evalSliceExpr(e *ast.SliceExpr, st *State) *Value {
	if e.Slice3 {
		panic(engErr("3-index slice not supported at %s", x.pos(e)))
	}
	xt := types.Unalias(x.typeOf(e.X)).Underlying()
	var arr, off, ln, cp *Term
	switch u := xt.(type) {
	case *types.Slice:
		s := x.eval(e.X, st)
		arr, off, ln, cp = SArr(s.Tm), SOff(s.Tm), SLen(s.Tm), SCap(s.Tm)
	case *types.Pointer:
		at, ok := u.Elem().Underlying().(*types.Array)
		if !ok {
			panic(engErr("slice of %s not supported", xt))
		}
		v := x.eval(e.X, st)
		if !v.P.simple() {
			panic(engErr("slicing an array embedded in a struct through a pointer is not supported at %s", x.pos(e)))
		}
		x.checkNonNil(st, v.P.Base, e)
		arr, off, ln = v.P.Base, IntLit(0), IntLit(at.Len())
	case *types.Array:
		p := x.addrOf(e.X, st)
		if p == nil || !p.simple() {
			if p != nil && len(p.Path) > 0 && p.Idx == nil {
				// array field of a heap struct: designate it by a derived reference
				arr = x.subRef(p)
				x.linkSubArray(st, p, arr, u)
				off, ln = IntLit(0), IntLit(u.Len())
				break
			}
			panic(engErr("slicing a non-addressable array at %s", x.pos(e)))
		}
		arr, off, ln = p.Base, IntLit(0), IntLit(u.Len())
	case *types.Basic:
		// string slicing
		s := x.eval(e.X, st)
		lo, hi := IntLit(0), App("strlen", IntS, s.Tm)
		if e.Low != nil {
			lo = x.toInt(x.eval(e.Low, st))
		}
		if e.High != nil {
			hi = x.toInt(x.eval(e.High, st))
		}
		x.oblige(st, "slice", "bounds", And(Le(IntLit(0), lo), Le(lo, hi), Le(hi, App("strlen", IntS, s.Tm))), e)
		return &Value{T: x.typeOf(e), Tm: App("substr", StrS, s.Tm, lo, hi)}
	default:
		panic(engErr("slice of %s not supported at %s", xt, x.pos(e)))
	}
	lo, hi := IntLit(0), ln
	if e.Low != nil {
		lo = x.toInt(x.eval(e.Low, st))
	}
	if e.High != nil {
		hi = x.toInt(x.eval(e.High, st))
	}
	if cp == nil {
		cp = ln
	}
	c := And(Le(IntLit(0), lo), Le(lo, hi), Le(hi, cp))
	if c != True {
		x.oblige(st, "slice", "bounds", c, e)
		x.assume(st, c)
	}
	return &Value{T: x.typeOf(e), Tm: MkSliceC(arr, Add(off, lo), Sub(hi, lo), Sub(cp, lo))}
}

// subRef gives array-typed struct fields a derived reference so they can be sliced.
func (x *Exec) subRef(p *Pointer) *Term {
	return App("subref", IntS, p.Base, x.eng.typeID(types.NewNamed(types.NewTypeName(0, nil, p.OwnerKey+"!"+strings.Join(p.Path, "."), nil), types.Typ[types.Int], nil)))
}

// linkSubArray copies the field array into the E map at the derived reference
// (reads through the slice then see the field contents). Writes through such a
// slice are not reflected back: flagged as a note.
func (x *Exec) linkSubArray(st *State, p *Pointer, ref *Term, at *types.Array) {
	v := x.load(st, p, at)
	k, ks := x.elemKey(v.Tm.S.Rng, at.Elem())
	m := st.hget(k, ks)
	st.heap[k] = x.vc.define("h", Store(m, ref, v.Tm))
	if x.subRefs == nil {
		x.subRefs = map[*Term]subRefInfo{}
	}
	x.subRefs[ref] = subRefInfo{p, at}
}

type subRefInfo struct {
	p  *Pointer
	at *types.Array
}

// syncSubRef writes the contents of a derived array reference back into the struct field it views
// (called after every write to the element map at that reference).
func (x *Exec) syncSubRef(st *State, ref *Term, key string, ks *Sort) {
	info, ok := x.subRefs[ref]
	if !ok {
		return
	}
	cur := Select(st.hget(key, ks), ref)
	x.store(st, info.p, info.at, &Value{T: info.at, Tm: x.vc.define("subarr", cur)})
}

// ---------- assignment ----------

func (x *Exec) assign(lhs ast.Expr, v *Value, st *State) {
	info := x.fr().info
	lhs = ast.Unparen(lhs)
	if id, ok := lhs.(*ast.Ident); ok && id.Name == "_" {
		return
	}
	t := x.typeOf(lhs)
	v = x.coerce(v, t)
	// map element
	if ie, ok := lhs.(*ast.IndexExpr); ok {
		if mt, isMap := types.Unalias(x.typeOf(ie.X)).Underlying().(*types.Map); isMap {
			m := x.eval(ie.X, st)
			k := x.coerce(x.eval(ie.Index, st), mt.Key())
			x.checkNonNil(st, m.term(), lhs)
			x.mapStore(st, mt, m.term(), k.term(), v)
			return
		}
	}
	if p := x.addrOf(lhs, st); p != nil {
		x.store(st, p, t, v)
		return
	}
	switch l := lhs.(type) {
	case *ast.Ident:
		obj := info.Uses[l]
		if obj == nil {
			obj = info.Defs[l]
		}
		vo, ok := obj.(*types.Var)
		if !ok {
			panic(engErr("assignment to non-variable %s", l.Name))
		}
		if _, inEnv := st.env[vo]; !inEnv {
			if vo.Parent() == vo.Pkg().Scope() {
				panic(engErr("assignment to package-level variable %s not supported at %s", l.Name, x.pos(lhs)))
			}
		}
		st.setVar(vo, x.named(l.Name, v))
	case *ast.SelectorExpr:
		sel := info.Selections[l]
		cur := x.eval(l.X, st)
		nv := x.updateField(cur, sel.Index(), v)
		x.assign(l.X, nv, st)
	case *ast.IndexExpr:
		cur := x.eval(l.X, st)
		at, ok := types.Unalias(x.typeOf(l.X)).Underlying().(*types.Array)
		if !ok {
			panic(engErr("unsupported index assignment at %s", x.pos(lhs)))
		}
		i := x.toInt(x.eval(l.Index, st))
		x.checkIndex(st, i, IntLit(at.Len()), lhs)
		x.assign(l.X, &Value{T: cur.T, Tm: Store(cur.Tm, i, v.term())}, st)
	default:
		panic(engErr("unsupported assignment target %T at %s", lhs, x.pos(lhs)))
	}
}

func (x *Exec) updateField(cur *Value, path []int, v *Value) *Value {
	if len(path) == 0 {
		return v
	}
	if cur.Fs == nil {
		panic(engErr("field update on non-struct value"))
	}
	n := &Value{T: cur.T, Fs: append([]*Value{}, cur.Fs...)}
	n.Fs[path[0]] = x.updateField(cur.Fs[path[0]], path[1:], v)
	return n
}

// ---------- composite literals ----------

func (x *Exec) evalComposite(e *ast.CompositeLit, st *State) *Value {
	t := x.typeOf(e)
	if o, _ := x.eng.override(t); o != nil && len(o.Sorts) == 1 {
		// abstracted type: only the zero literal is meaningful
		for _, el := range e.Elts {
			tv, ok := x.fr().info.Types[el]
			if !ok || tv.Value == nil || tv.Value.String() != "0" {
				panic(engErr("non-zero literal of abstracted type %s at %s", t, x.pos(e)))
			}
		}
		return &Value{T: t, Tm: zeroOfSort(o.Sorts[0])}
	}
	switch u := types.Unalias(t).Underlying().(type) {
	case *types.Struct:
		v := x.zero(t)
		for i, el := range e.Elts {
			if kv, ok := el.(*ast.KeyValueExpr); ok {
				name := kv.Key.(*ast.Ident).Name
				for j := 0; j < u.NumFields(); j++ {
					if u.Field(j).Name() == name {
						x.checkBigCopy(st, kv.Value)
						v.Fs[j] = x.coerce(x.eval(kv.Value, st), u.Field(j).Type())
					}
				}
			} else {
				x.checkBigCopy(st, el)
				v.Fs[i] = x.coerce(x.eval(el, st), u.Field(i).Type())
			}
		}
		return v
	case *types.Slice:
		es := x.sortOf(u.Elem())
		arr := ConstArray(ArrS(IntS, es), zeroOfSort(es))
		n := int64(0)
		for _, el := range e.Elts {
			idx := n
			val := el
			if kv, ok := el.(*ast.KeyValueExpr); ok {
				tv := x.fr().info.Types[kv.Key]
				iv, _ := constant.Int64Val(tv.Value)
				idx = iv
				val = kv.Value
			}
			arr = Store(arr, IntLit(idx), x.coerce(x.eval(val, st), u.Elem()).term())
			if idx+1 > n {
				n = idx + 1
			}
		}
		ref := x.alloc(st)
		k, ks := x.elemKey(es, u.Elem())
		st.hset(k, x.vc.define("h", Store(st.hget(k, ks), ref, arr)), ref)
		return &Value{T: t, Tm: MkSlice(ref, IntLit(0), IntLit(n))}
	case *types.Array:
		es := x.sortOf(u.Elem())
		arr := ConstArray(ArrS(IntS, es), zeroOfSort(es))
		n := int64(0)
		for _, el := range e.Elts {
			idx := n
			val := el
			if kv, ok := el.(*ast.KeyValueExpr); ok {
				tv := x.fr().info.Types[kv.Key]
				iv, _ := constant.Int64Val(tv.Value)
				idx = iv
				val = kv.Value
			}
			arr = Store(arr, IntLit(idx), x.coerce(x.eval(val, st), u.Elem()).term())
			n = idx + 1
		}
		return &Value{T: t, Tm: arr}
	case *types.Map:
		ref := x.newMap(st, u)
		for _, el := range e.Elts {
			kv := el.(*ast.KeyValueExpr)
			k := x.coerce(x.eval(kv.Key, st), u.Key())
			v := x.coerce(x.eval(kv.Value, st), u.Elem())
			x.mapStore(st, u, ref, k.term(), v)
		}
		return &Value{T: t, Tm: ref}
	}
	panic(engErr("unsupported composite literal of type %s at %s", t, x.pos(e)))
}

// ---------- maps ----------

func (x *Exec) mapDomKey(mt *types.Map) (string, *Sort) {
	ks := x.sortOf(mt.Key())
	return "Md!" + ks.String(), ArrS(IntS, ArrS(ks, BoolS))
}
func (x *Exec) mapValKey(mt *types.Map) (string, *Sort) {
	ks := x.sortOf(mt.Key())
	if x.isStruct(mt.Elem()) {
		panic(engErr("map with struct values not supported (%s)", mt))
	}
	vs := x.sortOf(mt.Elem())
	return "Mv!" + ks.String() + "!" + vs.String() + refTag(mt.Elem()), ArrS(IntS, ArrS(ks, vs))
}

func (x *Exec) mapLoad(st *State, mt *types.Map, m, k *Term) *Value {
	vals := Select(st.hget(x.mapValKey(mt)), m)
	v := x.typed(mt.Elem(), Select(vals, k))
	if v.Tm != nil {
		x.assumeAllocated(st, mt.Elem(), v.Tm)
	} else if v.P != nil {
		x.assumeAllocated(st, mt.Elem(), v.P.Base)
	}
	return v
}

func (x *Exec) mapStore(st *State, mt *types.Map, m, k *Term, v *Value) {
	dk, ds := x.mapDomKey(mt)
	vk, vs := x.mapValKey(mt)
	doms := st.hget(dk, ds)
	dom := Select(doms, m)
	was := Select(dom, k)
	lens := st.hget("Ml", ArrS(IntS, IntS))
	ln := Select(lens, m)
	st.hset("Ml", x.vc.define("ml", Store(lens, m, Ite(was, ln, Add(ln, IntLit(1))))), m)
	st.hset(dk, x.vc.define("md", Store(doms, m, Store(dom, k, True))), m)
	vals := st.hget(vk, vs)
	st.hset(vk, x.vc.define("mv", Store(vals, m, Store(Select(vals, m), k, v.term()))), m)
}

func (x *Exec) mapDelete(st *State, mt *types.Map, m, k *Term) {
	dk, ds := x.mapDomKey(mt)
	doms := st.hget(dk, ds)
	dom := Select(doms, m)
	was := Select(dom, k)
	lens := st.hget("Ml", ArrS(IntS, IntS))
	ln := Select(lens, m)
	st.hset("Ml", x.vc.define("ml", Store(lens, m, Ite(was, Sub(ln, IntLit(1)), ln))), m)
	st.hset(dk, x.vc.define("md", Store(doms, m, Store(dom, k, False))), m)
}

func (x *Exec) newMap(st *State, mt *types.Map) *Term {
	ref := x.alloc(st)
	dk, ds := x.mapDomKey(mt)
	st.hset(dk, x.vc.define("md", Store(st.hget(dk, ds), ref, ConstArray(ds.Rng, False))), ref)
	lens := st.hget("Ml", ArrS(IntS, IntS))
	st.hset("Ml", x.vc.define("ml", Store(lens, ref, IntLit(0))), ref)
	return ref
}

func (x *Exec) mapLen(st *State, m *Term) *Term {
	ln := Select(st.hget("Ml", ArrS(IntS, IntS)), m)
	if !ln.IsLit() {
		x.vc.assume(Ge(ln, IntLit(0)))
	}
	return Ite(Eq(m, IntLit(0)), IntLit(0), ln)
}

// ---------- dynamic types ----------

func (x *Exec) hasType(v *Value, t types.Type) *Term {
	ref := v.term()
	if _, isIface := types.Unalias(t).Underlying().(*types.Interface); isIface {
		// interface-to-interface assertion: implemented(dtype, iface) as uninterpreted predicate
		return And(Not(Eq(ref, IntLit(0))), App("implements", BoolS, App("dtype", IntS, ref), x.eng.typeID(t)))
	}
	return And(Not(Eq(ref, IntLit(0))), Eq(App("dtype", IntS, ref), x.eng.typeID(t)))
}

func (x *Exec) assertTo(v *Value, t types.Type) *Value {
	if isPointer(t) {
		return &Value{T: t, P: &Pointer{Base: v.term()}}
	}
	if x.isStruct(t) {
		panic(engErr("type assertion to struct value type %s not supported", t))
	}
	srt := x.sortOf(t)
	if srt == IntS {
		return &Value{T: t, Tm: v.term()}
	}
	// boxed non-reference value inside an interface: uninterpreted unboxing
	return &Value{T: t, Tm: App("unbox!"+srt.String(), srt, v.term())}
}

// ---------- binary operators ----------

func pow2(k uint) *big.Int { return new(big.Int).Lsh(big.NewInt(1), k) }

func (x *Exec) equal(a, b *Value) *Term {
	if a.Fs != nil || b.Fs != nil {
		if len(a.Fs) != len(b.Fs) {
			panic(engErr("comparison of differently shaped structs"))
		}
		var cs []*Term
		for i := range a.Fs {
			cs = append(cs, x.equal(a.Fs[i], b.Fs[i]))
		}
		return And(cs...)
	}
	ta, tb := a, b
	// an interior pointer (&x.f, &a[i]) compared with nil: nil exactly when its base is
	isNil := func(v *Value) bool {
		return (v.Tm != nil && v.Tm.IsLit() && v.Tm.S == IntS && v.Tm.Int.Sign() == 0) || (v.P != nil && v.P.simple() && v.P.Base.IsLit() && v.P.Base.Int.Sign() == 0)
	}
	if a.P != nil && !a.P.simple() && isNil(b) {
		return Eq(a.P.Base, IntLit(0))
	}
	if b.P != nil && !b.P.simple() && isNil(a) {
		return Eq(b.P.Base, IntLit(0))
	}
	if a.P != nil && b.P != nil && !(a.P.simple() && b.P.simple()) {
		// interior pointers: equal when they designate the same field path (and element) of the same object
		pa, pb := a.P, b.P
		if strings.Join(pa.Path, ".") != strings.Join(pb.Path, ".") || strings.Join(pa.EPath, ".") != strings.Join(pb.EPath, ".") || (pa.Idx == nil) != (pb.Idx == nil) {
			panic(engErr("comparison of interior pointers with different paths"))
		}
		c := Eq(pa.Base, pb.Base)
		if pa.Idx != nil {
			c = And(c, Eq(pa.Idx, pb.Idx))
		}
		return c
	}
	at, bt := ta.term(), tb.term()
	if at.S != bt.S {
		if at.S == SliceS && bt.IsLit() {
			return Eq(SArr(at), IntLit(0))
		}
		if bt.S == SliceS && at.IsLit() {
			return Eq(SArr(bt), IntLit(0))
		}
		if at.S.K == KBV && bt.S == IntS {
			bt = Int2BV(bt, at.S.W)
		} else if bt.S.K == KBV && at.S == IntS {
			at = Int2BV(at, bt.S.W)
		} else {
			panic(engErr("comparison of sorts %s and %s", at.S, bt.S))
		}
	}
	return Eq(at, bt)
}

func (x *Exec) binop(op token.Token, l, r *Value, rt types.Type, st *State, n ast.Node) *Value {
	switch op {
	case token.EQL:
		return &Value{T: types.Typ[types.Bool], Tm: x.equal(l, r)}
	case token.NEQ:
		return &Value{T: types.Typ[types.Bool], Tm: Not(x.equal(l, r))}
	}
	// operand type: the typed one
	ot := l.T
	if ot == nil || isUntyped(ot) {
		ot = r.T
	}
	if op == token.SHL || op == token.SHR {
		ot = l.T
		if ot == nil || isUntyped(ot) {
			ot = rt
		}
	}
	if ot != nil {
		if b, ok := ot.Underlying().(*types.Basic); ok && b.Info()&types.IsString != 0 {
			switch op {
			case token.ADD:
				return &Value{T: ot, Tm: App("strcat", StrS, l.Tm, r.Tm)}
			}
			panic(engErr("unsupported string operator %s", op))
		}
	}
	lt, rtm := l.Tm, r.Tm
	if lt == nil || rtm == nil {
		panic(engErr("binary operator %s on non-scalar values at %s", op, x.posN(n)))
	}
	if lt.S == BoolS {
		panic(engErr("unsupported boolean operator %s", op))
	}
	ii, _ := intTypeInfo(ot)
	// bring both operands to one sort (shifts excepted)
	if op != token.SHL && op != token.SHR {
		if lt.S != rtm.S {
			if lt.S.K == KBV && rtm.S == IntS {
				rtm = Int2BV(rtm, lt.S.W)
			} else if rtm.S.K == KBV && lt.S == IntS {
				lt = Int2BV(lt, rtm.S.W)
			} else {
				panic(engErr("operand sorts %s and %s at %s", lt.S, rtm.S, x.posN(n)))
			}
		}
	}
	isCmp := op == token.LSS || op == token.LEQ || op == token.GTR || op == token.GEQ
	if lt.S.K == KBV {
		if isCmp {
			m := map[token.Token]string{token.LSS: "lt", token.LEQ: "le", token.GTR: "gt", token.GEQ: "ge"}[op]
			pre := "bvu"
			if ii.signed {
				pre = "bvs"
			}
			return &Value{T: types.Typ[types.Bool], Tm: BVCmp(pre+m, lt, rtm)}
		}
		var res *Term
		switch op {
		case token.ADD:
			res = BVBin("bvadd", lt, rtm)
		case token.SUB:
			res = BVBin("bvsub", lt, rtm)
		case token.MUL:
			res = BVBin("bvmul", lt, rtm)
		case token.AND:
			res = BVBin("bvand", lt, rtm)
		case token.OR:
			res = BVBin("bvor", lt, rtm)
		case token.XOR:
			res = BVBin("bvxor", lt, rtm)
		case token.AND_NOT:
			res = BVBin("bvand", lt, BVNot(rtm))
		case token.QUO:
			x.oblige(st, "div0", "quo", Not(Eq(rtm, BVLit(big.NewInt(0), rtm.S.W))), n)
			if ii.signed {
				res = BVBin("bvsdiv", lt, rtm)
			} else {
				res = BVBin("bvudiv", lt, rtm)
			}
		case token.REM:
			x.oblige(st, "div0", "rem", Not(Eq(rtm, BVLit(big.NewInt(0), rtm.S.W))), n)
			if ii.signed {
				res = BVBin("bvsrem", lt, rtm)
			} else {
				res = BVBin("bvurem", lt, rtm)
			}
		case token.SHL, token.SHR:
			var cnt *Term
			if rtm.S == IntS {
				if rtm.IsLit() {
					cnt = BVLit(rtm.Int, lt.S.W)
				} else {
					cnt = Int2BV(rtm, lt.S.W)
				}
			} else if rtm.S.W <= lt.S.W {
				cnt = BVResize(rtm, lt.S.W, false)
			} else {
				// wider count: saturate
				big_ := BVCmp("bvuge", rtm, BVLit(big.NewInt(int64(lt.S.W)), rtm.S.W))
				cnt = Ite(big_, BVLit(big.NewInt(int64(lt.S.W)), lt.S.W), BVResize(rtm, lt.S.W, false))
			}
			switch {
			case op == token.SHL:
				res = BVBin("bvshl", lt, cnt)
			case ii.signed:
				res = BVBin("bvashr", lt, cnt)
			default:
				res = BVBin("bvlshr", lt, cnt)
			}
		default:
			panic(engErr("unsupported bv operator %s", op))
		}
		return &Value{T: rt, Tm: res}
	}
	// mathematical integers
	if isCmp {
		m := map[token.Token]string{token.LSS: "<", token.LEQ: "<=", token.GTR: ">", token.GEQ: ">="}[op]
		return &Value{T: types.Typ[types.Bool], Tm: Cmp(m, lt, rtm)}
	}
	var res *Term
	wrapNeeded := false
	switch op {
	case token.ADD:
		res, wrapNeeded = Add(lt, rtm), true
	case token.SUB:
		res, wrapNeeded = Sub(lt, rtm), true
	case token.MUL:
		res, wrapNeeded = Mul(lt, rtm), true
	case token.QUO:
		x.oblige(st, "div0", "quo", Not(Eq(rtm, IntLit(0))), n)
		if !ii.signed || ii.w == 0 {
			res = DivE(lt, rtm)
		} else {
			// Go truncates toward zero
			res = Ite(Ge(lt, IntLit(0)),
				Ite(Gt(rtm, IntLit(0)), DivE(lt, rtm), NegT(DivE(lt, NegT(rtm)))),
				Ite(Gt(rtm, IntLit(0)), NegT(DivE(NegT(lt), rtm)), DivE(NegT(lt), NegT(rtm))))
		}
	case token.REM:
		x.oblige(st, "div0", "rem", Not(Eq(rtm, IntLit(0))), n)
		if !ii.signed || ii.w == 0 {
			res = ModE(lt, rtm)
		} else {
			absr := Ite(Gt(rtm, IntLit(0)), rtm, NegT(rtm))
			res = Ite(Ge(lt, IntLit(0)), ModE(lt, absr), NegT(ModE(NegT(lt), absr)))
		}
	case token.SHL:
		if !rtm.IsLit() {
			res = Mul(lt, App("pow2", IntS, rtm))
		} else {
			res = Mul(lt, IntLitB(pow2(uint(rtm.Int.Int64()))))
		}
		wrapNeeded = true
	case token.SHR:
		if x.c != nil && x.c.Opts["abstract_shifts"] != "" {
			// sound weakening for value-preservation goals: the shifted-out quantity is arbitrary
			res = x.fresh("shr", IntS)
		} else if !rtm.IsLit() {
			res = DivE(lt, App("pow2", IntS, rtm))
		} else {
			res = DivE(lt, IntLitB(pow2(uint(rtm.Int.Int64()))))
		}
	case token.AND:
		res = x.intAnd(lt, rtm, ii, n)
	case token.OR:
		res = x.intOr(lt, rtm, st, n)
	case token.XOR:
		res = App("bxor", IntS, lt, rtm)
		x.note("xor in int mode left uninterpreted at " + x.posN(n))
	case token.AND_NOT:
		res = App("bandnot", IntS, lt, rtm)
		x.note("&^ in int mode left uninterpreted at " + x.posN(n))
	default:
		panic(engErr("unsupported operator %s at %s", op, x.posN(n)))
	}
	if wrapNeeded && ii.w > 0 && !res.IsLit() {
		if ii.signed {
			if x.overflow {
				lo, hi := intRange(ii)
				x.oblige(st, "overflow", op.String(), And(Le(IntLitB(lo), res), Le(res, IntLitB(hi))), n)
			}
		} else {
			res = ModE(res, IntLitB(pow2(uint(ii.w))))
		}
	}
	return &Value{T: rt, Tm: res}
}

func (x *Exec) posN(n ast.Node) string {
	if n == nil {
		return "?"
	}
	return x.pos(n)
}

func isUntyped(t types.Type) bool {
	b, ok := t.(*types.Basic)
	return ok && b.Info()&types.IsUntyped != 0
}

func isPow2Minus1(v *big.Int) (uint, bool) {
	if v.Sign() <= 0 {
		return 0, false
	}
	p := new(big.Int).Add(v, big.NewInt(1))
	if p.BitLen()-1 >= 0 && new(big.Int).And(p, v).Sign() == 0 {
		return uint(p.BitLen() - 1), true
	}
	return 0, false
}

func (x *Exec) intAnd(a, b *Term, ii intInfo, n ast.Node) *Term {
	if a.IsLit() && !b.IsLit() {
		a, b = b, a
	}
	if b.IsLit() {
		if b.Int.Sign() == 0 {
			return IntLit(0)
		}
		if k, ok := isPow2Minus1(b.Int); ok {
			return ModE(a, IntLitB(pow2(k)))
		}
		// single bit or contiguous mask m = (2^k - 1) << s
		tz := uint(0)
		for b.Int.Bit(int(tz)) == 0 {
			tz++
		}
		sh := new(big.Int).Rsh(b.Int, tz)
		if k, ok := isPow2Minus1(sh); ok {
			return Mul(ModE(DivE(a, IntLitB(pow2(tz))), IntLitB(pow2(k))), IntLitB(pow2(tz)))
		}
	}
	x.note("general & in int mode left uninterpreted at " + x.posN(n))
	return App("band", IntS, a, b)
}

// intOr models a|b as a+b under the side obligation that the operands occupy
// disjoint bit ranges: b is a multiple of 2^k and 0 <= a < 2^k.
func (x *Exec) intOr(a, b *Term, st *State, n ast.Node) *Term {
	if a.IsLit() && a.Int.Sign() == 0 {
		return b
	}
	if b.IsLit() && b.Int.Sign() == 0 {
		return a
	}
	k, ok := shiftAmount(b)
	lo, hiT := a, b
	if !ok {
		k, ok = shiftAmount(a)
		lo, hiT = b, a
	}
	if !ok {
		x.note("general | in int mode left uninterpreted at " + x.posN(n))
		return App("bor", IntS, a, b)
	}
	p := IntLitB(pow2(k))
	x.oblige(st, "bitor", "disjoint", And(Le(IntLit(0), lo), Lt(lo, p), Ge(hiT, IntLit(0))), n)
	return Add(lo, hiT)
}

// shiftAmount recognises terms of the form t * 2^k (possibly under mod).
func shiftAmount(t *Term) (uint, bool) {
	if t.Op == "mod" {
		return shiftAmount(t.Args[0])
	}
	if t.Op == "*" && len(t.Args) == 2 && t.Args[1].IsLit() {
		v := t.Args[1].Int
		if v.Sign() > 0 && new(big.Int).And(v, new(big.Int).Sub(v, big.NewInt(1))).Sign() == 0 {
			return uint(v.BitLen() - 1), true
		}
	}
	if t.Op == "var" || t.Op == "select" {
		return 0, false
	}
	return 0, false
}

// ---------- conversions ----------

func (x *Exec) convert(v *Value, to types.Type, st *State, n ast.Node) *Value {
	to = types.Unalias(to)
	from := v.T
	if v.Fs != nil {
		return &Value{T: to, Fs: v.Fs}
	}
	if v.P != nil {
		if isPointer(to) {
			return &Value{T: to, P: v.P}
		}
		return &Value{T: to, Tm: v.term()}
	}
	if _, isSlice := to.Underlying().(*types.Slice); isSlice && v.Tm != nil && v.Tm.S == IntS && v.Tm.IsLit() {
		return &Value{T: to, Tm: MkSlice(IntLit(0), IntLit(0), IntLit(0))}
	}
	toII, toInt := intTypeInfo(to)
	fromII, fromInt := intInfo{}, false
	if from != nil {
		fromII, fromInt = intTypeInfo(from)
	}
	if toInt && (fromInt || v.Tm.S == IntS || v.Tm.S.K == KBV) {
		ts := x.sortOf(to)
		t := v.Tm
		if t.S.K == KBV && ts.K == KBV {
			return &Value{T: to, Tm: BVResize(t, ts.W, fromII.signed)}
		}
		if t.S.K == KBV && ts == IntS {
			return &Value{T: to, Tm: BV2Int(t, fromII.signed)}
		}
		if t.S == IntS && ts.K == KBV {
			return &Value{T: to, Tm: Int2BV(t, ts.W)}
		}
		// Int -> Int with wrapping
		if toII.w == 0 {
			return &Value{T: to, Tm: t}
		}
		fits := fromInt && fromII.w > 0 && ((fromII.signed == toII.signed && fromII.w <= toII.w) || (!fromII.signed && toII.signed && fromII.w < toII.w))
		if fits || t.IsLit() {
			if t.IsLit() {
				lo, hi := intRange(toII)
				if t.Int.Cmp(lo) >= 0 && t.Int.Cmp(hi) <= 0 {
					return &Value{T: to, Tm: t}
				}
			} else {
				return &Value{T: to, Tm: t}
			}
		}
		m := IntLitB(pow2(uint(toII.w)))
		if !toII.signed {
			return &Value{T: to, Tm: ModE(t, m)}
		}
		if x.overflow {
			lo, hi := intRange(toII)
			x.oblige(st, "overflow", "conv", And(Le(IntLitB(lo), t), Le(t, IntLitB(hi))), n)
			return &Value{T: to, Tm: t}
		}
		half := IntLitB(pow2(uint(toII.w - 1)))
		return &Value{T: to, Tm: Sub(ModE(Add(t, half), m), half)}
	}
	// string <-> []byte
	if _, isSlice := to.Underlying().(*types.Slice); isSlice && v.Tm.S == StrS {
		ref := x.alloc(st)
		k, ks := x.elemKey(x.sortOf(types.Typ[types.Uint8]), types.Typ[types.Uint8])
		if ks.Rng.Rng == IntS {
			st.hset(k, x.vc.define("h", Store(st.hget(k, ks), ref, App("strbytes", ArrS(IntS, IntS), v.Tm))), ref)
		}
		ln := App("strlen", IntS, v.Tm)
		x.vc.assume(Ge(ln, IntLit(0)))
		return &Value{T: to, Tm: MkSlice(ref, IntLit(0), ln)}
	}
	if b, ok := to.Underlying().(*types.Basic); ok && b.Info()&types.IsString != 0 {
		if v.Tm.S == SliceS {
			return &Value{T: to, Tm: App("bytes2str", StrS, x.sliceContents(st, v.Tm, IntS, types.Typ[types.Uint8]), SOff(v.Tm), SLen(v.Tm))}
		}
		if v.Tm.S == StrS {
			return &Value{T: to, Tm: v.Tm}
		}
	}
	// same-sort conversions (named types, interfaces)
	ts, ok := x.eng.sortOf(to, x.bv)
	if ok && ts == v.Tm.S {
		return &Value{T: to, Tm: v.Tm}
	}
	panic(engErr("unsupported conversion from %v to %s at %s", from, to, x.posN(n)))
}

func (x *Exec) sliceContents(st *State, s *Term, es *Sort, et types.Type) *Term {
	k, ks := x.elemKey(es, et)
	return Select(st.hget(k, ks), SArr(s))
}

var _ = fmt.Sprint
