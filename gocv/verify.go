package main

// Per-function verification driver.

import (
	"fmt"
	"os"
	"go/ast"
	"go/types"
	"runtime/debug"
	"sort"
	"strings"
)

type FuncResult struct {
	Key       string
	Obls      []*Obligation
	Err       string
	Notes     []string
	Inlined   []string
	Assumed   []string // contracts of callees used
	Facts     int
}

func (e *Engine) verifyFunc(key string) (res *FuncResult) {
	res = &FuncResult{Key: key}
	c := e.db.C[key]
	fi := e.funcs[key]
	if fi == nil {
		// "Func@variant": a second contract (e.g. in another mode) for the same function
		if i := strings.LastIndex(key, "@"); i > 0 {
			fi = e.funcs[key[:i]]
		}
	}
	if fi == nil {
		res.Err = "function not found in /repo: " + key
		return
	}
	vc := &VC{fn: key}
	vc.symMark = map[*Term]int{}
	x := &Exec{eng: e, vc: vc, c: c, top: fi, typedSeen: map[*Term]bool{}, symMark: vc.symMark,
		inlined: map[string]bool{}, used: map[string]bool{}, wfSeen: map[[2]*Term]bool{}, allocSeen: map[[2]*Term]bool{}}
	x.bv = c.Mode == "bv"
	e.curMode = c.Mode
	x.overflow = c.Overflow
	x.safety = c.Safety
	defer func() {
		res.Obls = vc.obls
		for _, o := range res.Obls {
			o.facts = vc.facts
			o.Props = c.Props
		}
		res.Notes = x.notes
		res.Facts = len(vc.facts)
		for k := range x.inlined {
			res.Inlined = append(res.Inlined, k)
		}
		for k := range x.used {
			res.Assumed = append(res.Assumed, k)
		}
		sort.Strings(res.Inlined)
		sort.Strings(res.Assumed)
		if r := recover(); r != nil {
			if ee, ok := r.(*EngineError); ok {
				res.Err = ee.Msg
				if os.Getenv("GOCV_TRACE") != "" {
					res.Err += "\n" + string(debug.Stack())
				}
			} else {
				res.Err = fmt.Sprintf("internal error: %v\n%s", r, debug.Stack())
			}
		}
	}()
	f := x.newFrame(fi)
	x.frames = []*frame{f}
	heapSorts = map[string]*Sort{}
	x.installHeapHook()
	st := &State{guard: True, env: map[types.Object]*Value{}, heap: map[string]*Term{}}
	st.allocBase = Var("alloc0", IntS)
	vc.assume(Gt(st.allocBase, IntLit(0)))
	sig := fi.Obj.Type().(*types.Signature)
	sc := &SpecScope{names: map[string]*Value{}, pkg: fi.Pkg.Types}
	x.topScope = sc
	// The pre-state: params are symbolic; x.old is the entry snapshot.
	x.old = st
	var inputs []*Term
	bind := func(v *types.Var, isRecv bool) {
		if v == nil {
			return
		}
		name := v.Name()
		if name == "" || name == "_" {
			name = "anon"
		}
		val := x.symbolic(st, v.Type(), name)
		collectTerms(val, &inputs)
		if isRecv && val.P != nil {
			vc.assume(Gt(val.P.Base, IntLit(0)))
		}
		sc.names[name] = val
		if isRecv {
			sc.names["recv"] = val
		}
	}
	bind(sig.Recv(), true)
	for i := 0; i < sig.Params().Len(); i++ {
		bind(sig.Params().At(i), false)
	}
	entry := st.clone()
	x.old = entry
	sc.old = entry
	for _, r := range c.Requires {
		vc.assume(x.evalSpecBool(r, sc, st))
	}
	for _, flag := range strings.Fields(c.Opts["use"]) {
		vc.assume(Var(flag, BoolS))
	}
	for _, ln := range strings.Fields(c.Opts["lemmas"]) {
		vc.assume(x.lemmaAxiom(ln, st))
	}
	// vacuity: the preconditions must be satisfiable
	cov := vc.oblige("cover", "cover:requires", True, x.pos(fi.Decl))
	cov.Status = ""
	cov.Cover = true
	// heap contents that requires mention are now named; copy heap into entry snapshot
	for k, v := range st.heap {
		entry.heap[k] = v
	}
	// bind parameters into the environment (boxing where needed)
	if sig.Recv() != nil {
		x.bindParam(sig.Recv(), sc.names["recv"], st)
	}
	for i := 0; i < sig.Params().Len(); i++ {
		p := sig.Params().At(i)
		n := p.Name()
		if n == "" || n == "_" {
			continue
		}
		x.bindParam(p, sc.names[n], st)
	}
	for _, r := range f.results {
		if r.Name() != "" && r.Name() != "_" {
			x.bindParam(r, x.zero(r.Type()), st)
		}
	}
	entry.allocBase, entry.allocK = st.allocBase, st.allocK
	end := x.execBlock(fi.Decl.Body.List, st)
	if end != nil {
		x.runDefers(end)
		var vals []*Value
		for _, r := range f.results {
			if r.Name() == "" {
				panic(engErr("function falls off the end without return"))
			}
			vals = append(vals, x.readVar(r, end))
		}
		f.returns = append(f.returns, end)
		f.retVals = append(f.retVals, vals)
	}
	// postconditions at every return
	for k, rs := range f.returns {
		rsc := &SpecScope{names: map[string]*Value{}, parent: sc, old: entry, pkg: fi.Pkg.Types}
		ghostLocals := map[string]*Value{}
		// locals that are live at the return may be named in postconditions (existential witnesses)
		rsc.locals = func(name string, st *State) *Value {
			var best types.Object
			for o := range st.env {
				if o.Name() == name && o.Pos() >= fi.Decl.Pos() && o.Pos() <= fi.Decl.End() {
					if _, isParam := sc.names[name]; isParam {
						continue
					}
					if best == nil || o.Pos() < best.Pos() {
						best = o
					}
				}
			}
			if best == nil {
				// a local that is not live at this return: any value (the clause must hold for all)
				if v, ok := ghostLocals[name]; ok {
					return v
				}
				for id, o := range fi.Pkg.TypesInfo.Defs {
					if o == nil || id.Name != name || id.Pos() < fi.Decl.Body.Pos() || id.Pos() > fi.Decl.Body.End() {
						continue
					}
					if vo, ok := o.(*types.Var); ok {
						v := x.symbolic(st, vo.Type(), "unbound."+name)
						ghostLocals[name] = v
						return v
					}
				}
				return nil
			}
			return x.readVar(best, st)
		}
		for i, v := range f.retVals[k] {
			name := "result"
			if i > 0 {
				name = fmt.Sprintf("result%d", i)
			}
			rsc.names[name] = v
			if rn := f.results[i].Name(); rn != "" && rn != "_" {
				rsc.names[rn] = v
			}
		}
		suffix := ""
		if len(f.returns) > 1 {
			suffix = fmt.Sprintf("@ret%d", k+1)
		}
		for i, en := range c.Ensures {
			if en.Assumed {
				x.note("assumed (unchecked) postcondition of " + fi.Key + ": " + en.Src)
				continue
			}
			t := x.evalEnsuresAt(en, rsc, rs)
			x.oblige(rs, "ensures", clauseName(en, i)+suffix, t, nil)
			if len(en.Cut) > 0 && x.lastObl != nil {
				// the listed locals are arbitrary values in this obligation: their terms are replaced
				// by fresh symbols in the goal (proving the goal for every value proves it for theirs)
				rep := map[*Term]*Term{}
				for _, n := range en.Cut {
					if v := rsc.locals(n, rs); v != nil && v.Tm != nil && !v.Tm.IsLit() {
						rep[v.Tm] = x.vc.fresh("cut."+n, v.Tm.S)
					}
				}
				x.lastObl.Goal = Replace(x.lastObl.Goal, rep)
				x.lastObl.Repl = rep
			}
		}
		if c.HasMod {
			x.checkFrame(c, sc, entry, rs, suffix)
		}
		// reachability of this return (vacuity guard)
		if (k == 0 || len(f.returns) <= 6) && !strings.Contains(" "+c.Opts["unreachable"]+" ", " return"+suffix+" ") {
			co := vc.oblige("cover", "cover:return"+suffix, rs.guard, "")
			co.Status = ""
			co.Cover = true
		}
	}
	if len(f.returns) == 0 {
		x.note("function has no reachable return")
	}
	for _, o := range vc.obls {
		o.Inputs = inputs
	}
	return
}

func collectTerms(v *Value, out *[]*Term) {
	if v == nil {
		return
	}
	if v.Tm != nil {
		*out = append(*out, v.Tm)
	}
	if v.P != nil {
		*out = append(*out, v.P.Base)
	}
	for _, f := range v.Fs {
		collectTerms(f, out)
	}
}

// checkFrame: every heap map that changed must agree with its entry value on all
// references that existed at entry and are not covered by a modifies clause.
func (x *Exec) checkFrame(c *Contract, sc *SpecScope, entry, rs *State, suffix string) {
	allowed := map[string][]*Term{}
	whole := map[string]bool{}
	all := false
	for _, m := range c.Modifies {
		for _, loc := range x.specLocs(m, sc, entry, c) {
			for _, kr := range loc.keysAndRefs(x) {
				k := kr[0].(string)
				if k == "*" {
					all = true
					continue
				}
				if strings.HasPrefix(k, "*") {
					whole[k[1:]] = true // a whole ghost map (allof): only that map is exempt
					continue
				}
				allowed[k] = append(allowed[k], kr[1].(*Term))
			}
		}
	}
	if all {
		return
	}
	keys := make([]string, 0, len(rs.heap))
	for k := range rs.heap {
		keys = append(keys, k)
	}
	sort.Strings(keys)
	for _, k := range keys {
		final := rs.heap[k]
		init, ok := entry.heap[k]
		if !ok {
			init = Var(k+"@0", heapSorts[k])
		}
		if final == init || whole[k] {
			continue
		}
		srt := heapSorts[k]
		if srt.K != KArr || srt.Dom != IntS {
			continue
		}
		r := x.vc.fresh("frame.r", IntS)
		conds := []*Term{Gt(r, IntLit(0)), Lt(r, entry.allocTop())}
		for _, a := range allowed[k] {
			conds = append(conds, Not(Eq(r, a)))
		}
		goal := Implies(And(conds...), Eq(Select(final, r), Select(init, r)))
		x.oblige(rs, "modifies", frameName(k)+suffix, goal, nil)
	}
}

func frameName(k string) string {
	k = strings.ReplaceAll(k, "(Array Int ", "[")
	k = strings.ReplaceAll(k, "(_ BitVec ", "bv")
	k = strings.ReplaceAll(k, ")", "]")
	return k
}

// verifyLemma: a ghost lemma is a quantifier-free implication proved from the prelude.
func (e *Engine) verifyLemma(l *Lemma) *FuncResult {
	res := &FuncResult{Key: "lemma." + l.Name}
	vc := &VC{fn: res.Key}
	vc.symMark = map[*Term]int{}
	x := &Exec{eng: e, vc: vc, typedSeen: map[*Term]bool{}, symMark: vc.symMark, inlined: map[string]bool{}, used: map[string]bool{}, wfSeen: map[[2]*Term]bool{}, allocSeen: map[[2]*Term]bool{}}
	defer func() {
		res.Obls = vc.obls
		for _, o := range res.Obls {
			o.facts = vc.facts
			o.Props = l.Props
		}
		if r := recover(); r != nil {
			if ee, ok := r.(*EngineError); ok {
				res.Err = ee.Msg
			} else {
				res.Err = fmt.Sprintf("internal error: %v\n%s", r, debug.Stack())
			}
		}
	}()
	st := &State{guard: True, env: map[types.Object]*Value{}, heap: map[string]*Term{}, allocBase: Var("alloc0", IntS)}
	x.old = st
	sc := &SpecScope{names: map[string]*Value{}, old: st}
	for i, p := range l.Params {
		sc.names[p] = &Value{Tm: Var("lem."+l.Name+"."+p, l.Sorts[i])}
	}
	for _, r := range l.Requires {
		vc.assume(x.evalSpecBool(r, sc, st))
	}
	if l.Induct != "" {
		// induction hypothesis: for n > 0 the lemma holds at n-1 (same other parameters). For n <= 0
		// nothing is assumed, so the statement is proved for every integer n.
		nv, ok := sc.names[l.Induct]
		if !ok || nv.Tm.S != IntS {
			panic(engErr("lemma %s: induct parameter %q must be an Int parameter", l.Name, l.Induct))
		}
		sc1 := &SpecScope{names: map[string]*Value{}, old: st}
		for k, v := range sc.names {
			sc1.names[k] = v
		}
		sc1.names[l.Induct] = &Value{Tm: Sub(nv.Tm, IntLit(1))}
		var hyp, con []*Term
		for _, r := range l.Requires {
			hyp = append(hyp, x.evalSpecBool(r, sc1, st))
		}
		for _, en := range l.Ensures {
			con = append(con, x.evalSpecBool(en, sc1, st))
		}
		// the preconditions carry over to n-1 (proved), so the conclusion at n-1 may be used directly
		x.oblige(st, "lemma", "ih-requires", Implies(Gt(nv.Tm, IntLit(0)), And(hyp...)), nil)
		vc.assume(Implies(Gt(nv.Tm, IntLit(0)), And(con...)))
	}
	cov := vc.oblige("cover", "cover:requires", True, "")
	cov.Status = ""
	cov.Cover = true
	for i, en := range l.Ensures {
		x.oblige(st, "lemma", clauseName(en, i), x.evalSpecBool(en, sc, st), nil)
	}
	return res
}

// installHeapHook: every reference stored in the entry heap (in objects that exist at
// entry) is itself below the entry allocation frontier alloc0.
func (x *Exec) installHeapHook() {
	a0 := Var("alloc0", IntS)
	heapInitHook = func(key string, m *Term) { x.heapWF(key, m, a0) }
}

// assumeHeapWF states, for every reference-carrying heap map of st, that objects
// existing now only hold references to objects existing now.
func (x *Exec) assumeHeapWF(st *State) {
	top := st.allocTop()
	if !top.IsLit() && top.Op != "var" {
		top = x.vc.define("top", top)
	}
	keys := make([]string, 0, len(st.heap))
	for k := range st.heap {
		keys = append(keys, k)
	}
	sort.Strings(keys)
	for _, k := range keys {
		m := st.heap[k]
		if m.Op != "var" {
			continue // written since: facts about the named pieces suffice
		}
		ck := [2]*Term{m, top}
		if x.wfSeen[ck] {
			continue
		}
		x.wfSeen[ck] = true
		x.heapWF(k, m, top)
	}
}

func (x *Exec) heapWF(key string, m *Term, a0 *Term) {
	srt := m.S
	if srt.K != KArr || srt.Dom != IntS {
		return
	}
	r := Var("r!", IntS)
	k := Var("k!", IntS)
	isRef := strings.HasSuffix(key, "!Ref")
	inRange := func(t *Term) *Term { return And(Le(IntLit(0), t), Lt(t, a0)) }
	sliceOK := func(t *Term) *Term {
		return And(Le(IntLit(0), mk("s-arr", "", IntS, nil, t)), Lt(mk("s-arr", "", IntS, nil, t), a0),
			Le(IntLit(0), mk("s-off", "", IntS, nil, t)), Le(IntLit(0), mk("s-len", "", IntS, nil, t)),
			Le(mk("s-len", "", IntS, nil, t), mk("s-cap", "", IntS, nil, t)))
	}
	switch {
	case srt.Rng == IntS && isRef:
		sel := mk("select", "", IntS, nil, m, r)
		x.vc.assume(Forall([]*Term{r}, Implies(Lt(r, a0), inRange(sel)), sel))
	case srt.Rng == SliceS:
		sel := mk("select", "", SliceS, nil, m, r)
		x.vc.assume(Forall([]*Term{r}, Implies(Lt(r, a0), sliceOK(sel)), sel))
	case srt.Rng.K == KArr && srt.Rng.Rng == IntS && isRef:
		if srt.Rng.Dom != IntS {
			k = Var("k!", srt.Rng.Dom)
		}
		sel := mk("select", "", IntS, nil, mk("select", "", srt.Rng, nil, m, r), k)
		x.vc.assume(Forall([]*Term{r, k}, Implies(Lt(r, a0), inRange(sel)), sel))
	case srt.Rng.K == KArr && srt.Rng.Rng == SliceS:
		if srt.Rng.Dom != IntS {
			k = Var("k!", srt.Rng.Dom)
		}
		sel := mk("select", "", SliceS, nil, mk("select", "", srt.Rng, nil, m, r), k)
		x.vc.assume(Forall([]*Term{r, k}, Implies(Lt(r, a0), sliceOK(sel)), sel))
	}
}

// evalEnsuresAt evaluates a postcondition at one return. A white-box clause
// (ensures_local) of the form A ==> B that names a local which is not live at this
// return is replaced by the obligation !A (the return must not be one the clause speaks about).
func (x *Exec) evalEnsuresAt(en Clause, sc *SpecScope, st *State) (res *Term) {
	if !en.Local {
		return x.evalSpecBool(en, sc, st)
	}
	defer func() {
		if r := recover(); r != nil {
			ee, ok := r.(*EngineError)
			if !ok || !strings.Contains(ee.Msg, "unknown identifier") {
				panic(r)
			}
			e := parseSpec(en)
			ce, isCall := e.(*ast.CallExpr)
			if !isCall {
				panic(r)
			}
			if id, ok := ce.Fun.(*ast.Ident); !ok || id.Name != "implies__" {
				panic(r)
			}
			x.dry++
			lhs := x.evalSpec(ce.Args[0], sc, st)
			x.dry--
			res = Not(lhs.Tm)
		}
	}()
	return x.evalSpecBool(en, sc, st)
}

// lemmaAxiom states a (separately verified) lemma as a quantified assumption.
func (x *Exec) lemmaAxiom(name string, st *State) *Term {
	var l *Lemma
	for _, c := range x.eng.db.Lemmas {
		if c.Name == name {
			l = c
		}
	}
	if l == nil {
		panic(engErr("unknown lemma %q", name))
	}
	sc := &SpecScope{names: map[string]*Value{}, old: st}
	var vars []*Term
	for i, p := range l.Params {
		v := Var("lem."+l.Name+"."+p, l.Sorts[i])
		vars = append(vars, v)
		sc.names[p] = &Value{Tm: v}
	}
	x.vc.noDefine++
	defer func() { x.vc.noDefine-- }()
	var hyp, con []*Term
	for _, r := range l.Requires {
		hyp = append(hyp, x.evalSpecBool(r, sc, st))
	}
	for _, en := range l.Ensures {
		con = append(con, x.evalSpecBool(en, sc, st))
	}
	var pats []*Term
	for _, pc := range l.Patterns {
		var ts []*Term
		for _, src := range splitTop(pc.Src, ',') {
			cl := pc
			cl.Src = strings.TrimSpace(src)
			ts = append(ts, x.evalSpec(parseSpec(cl), sc, st).Tm)
		}
		if len(ts) == 1 {
			pats = append(pats, ts[0])
		} else {
			pats = append(pats, mk("mpat", "", BoolS, nil, ts...))
		}
	}
	return Forall(vars, Implies(And(hyp...), And(con...)), pats...)
}
