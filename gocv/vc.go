package main

// Facts, obligations, cone-of-influence slicing, SMT emission and the solver portfolio.

import (
	"bytes"
	"context"
	"fmt"
	"os"
	"os/exec"
	"path/filepath"
	"regexp"
	"sort"
	"strings"
	"sync"
	"sync/atomic"
	"time"
)

type Fact struct {
	T   *Term
	Def *Term // variable defined by this fact (T is (= Def rhs)), nil for assumptions
}

type Obligation struct {
	Name   string
	Kind   string
	Func   string
	Props  []string
	Goal   *Term
	Cover  bool // vacuity check: facts ∧ Goal must be SAT
	NFacts int
	Pos    string
	facts  []Fact // backing facts of the VC that produced it

	Status  string // proved | failed | unknown | error
	Solver  string
	Seconds float64
	Output  string
	Model   map[string]string
	SMTSize int
	SMTFile string
	Inputs  []*Term // input variables worth reporting from a model
	Cut     map[*Term]bool // defined symbols whose definitions are left out (treated as arbitrary)
	Repl    map[*Term]*Term // terms generalised to fresh symbols throughout this obligation (facts and goal)
}

type VC struct {
	facts   []Fact
	obls    []*Obligation
	nsym    int
	fn      string
	symMark map[*Term]int
	defs    map[*Term]*Term
	noDefine int // > 0 while evaluating under a quantifier: terms may mention bound variables
	defMemo  map[*Term]defEntry
}

type defEntry struct {
	v   *Term
	idx int
}

func (vc *VC) fresh(hint string, s *Sort) *Term {
	vc.nsym++
	h := sanitize(hint)
	t := Var(fmt.Sprintf("%s!%d", h, vc.nsym), s)
	if vc.symMark != nil {
		vc.symMark[t] = vc.nsym
	}
	return t
}

func sanitize(s string) string {
	var b strings.Builder
	for _, c := range s {
		if c >= 'a' && c <= 'z' || c >= 'A' && c <= 'Z' || c >= '0' && c <= '9' || c == '_' || c == '.' {
			b.WriteRune(c)
		} else {
			b.WriteByte('_')
		}
	}
	if b.Len() == 0 {
		return "t"
	}
	return b.String()
}

func (vc *VC) assume(t *Term) {
	if t == True {
		return
	}
	vc.facts = append(vc.facts, Fact{T: t})
}

// define introduces a name for t when t is big, to keep printed VCs DAG-sized.
func (vc *VC) define(hint string, t *Term) *Term {
	if t.size <= 12 || t.Op == "var" || t.IsLit() || vc.noDefine > 0 {
		return t
	}
	// the same term gets the same name (as long as its defining fact is still present: dry runs
	// of loop bodies discard the facts they added)
	if e, ok := vc.defMemo[t]; ok && e.idx < len(vc.facts) && vc.facts[e.idx].Def == e.v {
		return e.v
	}
	v := vc.fresh(hint, t.S)
	vc.facts = append(vc.facts, Fact{T: mk("=", "", BoolS, nil, v, t), Def: v})
	if vc.defs == nil {
		vc.defs = map[*Term]*Term{}
		vc.defMemo = map[*Term]defEntry{}
	}
	vc.defs[v] = t
	vc.defMemo[t] = defEntry{v, len(vc.facts) - 1}
	return v
}

func (vc *VC) oblige(kind, name string, goal *Term, pos string) *Obligation {
	o := &Obligation{Name: name, Kind: kind, Goal: goal, NFacts: len(vc.facts), Pos: pos, Func: vc.fn}
	if goal == True {
		o.Status = "proved"
		o.Solver = "simplifier"
	}
	vc.obls = append(vc.obls, o)
	return o
}

// ---------- prelude ----------

type SpecFn struct {
	Name string
	Args []*Sort
	Ret  *Sort
}

type PreludeBlock struct {
	Text    string
	Defines []string
	Uses    []string
}

type Prelude struct {
	Blocks []*PreludeBlock
	Fns    map[string]*SpecFn
	Ghost  map[string]*Sort // ghost heap field -> value sort
	Sorts  []string
	byDef  map[string]*PreludeBlock
	Ring   map[string]bool // heads of the ring/module axioms (left out of ground-mode attempts)
}

var symRe = regexp.MustCompile(`[A-Za-z_][A-Za-z0-9_!.$]*`)

func loadPrelude(dir string) (*Prelude, error) {
	p := &Prelude{Fns: map[string]*SpecFn{}, Ghost: map[string]*Sort{}, byDef: map[string]*PreludeBlock{}}
	files, _ := filepath.Glob(filepath.Join(dir, "*.smt2"))
	sort.Strings(files)
	for _, f := range files {
		data, err := os.ReadFile(f)
		if err != nil {
			return nil, err
		}
		// strip comments but keep directives "; ghost name Sort"
		var clean strings.Builder
		for _, line := range strings.Split(string(data), "\n") {
			t := strings.TrimSpace(line)
			if strings.HasPrefix(t, "; ring-heads ") {
				if p.Ring == nil {
					p.Ring = map[string]bool{}
				}
				for _, h := range strings.Fields(t)[2:] {
					p.Ring[h] = true
				}
				continue
			}
			if strings.HasPrefix(t, "; ghost ") {
				fs := strings.Fields(t)
				p.Ghost[fs[2]] = parseSort(strings.Join(fs[3:], " "))
				continue
			}
			if i := strings.Index(line, ";"); i >= 0 {
				line = line[:i]
			}
			clean.WriteString(line)
			clean.WriteString("\n")
		}
		for _, form := range splitSexp(clean.String()) {
			if !strings.HasPrefix(form, "(") {
				continue
			}
			items := splitSexp(form[1 : len(form)-1])
			if len(items) == 0 {
				continue
			}
			blk := &PreludeBlock{Text: form}
			switch items[0] {
			case "declare-sort":
				blk.Defines = []string{items[1]}
				p.Sorts = append(p.Sorts, items[1])
			case "declare-fun":
				fn := &SpecFn{Name: items[1], Ret: parseSort(items[3])}
				for _, a := range splitSexp(items[2][1 : len(items[2])-1]) {
					fn.Args = append(fn.Args, parseSort(a))
				}
				p.Fns[fn.Name] = fn
				blk.Defines = []string{fn.Name}
			case "declare-const":
				fn := &SpecFn{Name: items[1], Ret: parseSort(items[2])}
				p.Fns[fn.Name] = fn
				blk.Defines = []string{fn.Name}
			case "define-fun", "define-fun-rec":
				fn := &SpecFn{Name: items[1], Ret: parseSort(items[3])}
				for _, a := range splitSexp(items[2][1 : len(items[2])-1]) {
					pr := splitSexp(a[1 : len(a)-1])
					fn.Args = append(fn.Args, parseSort(strings.Join(pr[1:], " ")))
				}
				p.Fns[fn.Name] = fn
				blk.Defines = []string{fn.Name}
			case "assert":
				// axiom: attached to every symbol it mentions that is declared in the prelude
			default:
				continue
			}
			for _, s := range symRe.FindAllString(form, -1) {
				blk.Uses = append(blk.Uses, s)
			}
			p.Blocks = append(p.Blocks, blk)
			for _, d := range blk.Defines {
				p.byDef[d] = blk
			}
		}
	}
	return p, nil
}

// selectBlocks returns the prelude text needed for the given used symbols:
// declarations of used symbols (transitively) and every axiom all of whose
// prelude symbols are already included (axioms never pull in new symbols, except
// their own declared dependencies which must all be present).
func (p *Prelude) selectBlocks(used map[string]bool, axiomTriggers map[string]bool) string {
	inc := map[*PreludeBlock]bool{}
	var add func(b *PreludeBlock)
	add = func(b *PreludeBlock) {
		if inc[b] {
			return
		}
		inc[b] = true
		for _, u := range b.Uses {
			if d, ok := p.byDef[u]; ok && d != b {
				add(d)
			}
		}
	}
	for s := range used {
		if b, ok := p.byDef[s]; ok {
			add(b)
		}
	}
	// axioms: include when they mention at least one included function symbol that is "primary"
	// (the first prelude function symbol in the axiom text).
	changed := true
	for changed {
		changed = false
		for _, b := range p.Blocks {
			if inc[b] || len(b.Defines) > 0 {
				continue
			}
			trigger := false
			for _, u := range b.Uses {
				if d, ok := p.byDef[u]; ok {
					if _, isfn := p.Fns[u]; isfn {
						trigger = inc[d]
						if axiomTriggers != nil && !axiomTriggers[u] {
							trigger = false
						}
						break
					}
				}
			}
			if trigger {
				add(b)
				changed = true
			}
		}
	}
	var sb strings.Builder
	for _, b := range p.Blocks {
		if inc[b] {
			sb.WriteString(b.Text)
			sb.WriteString("\n")
		}
	}
	return sb.String()
}

// ---------- emission ----------

func (o *Obligation) emit(p *Prelude, noCOI bool, mode string) string {
	lean := mode != "full"
	facts := o.facts[:o.NFacts]
	if len(o.Repl) > 0 {
		// generalisation: (facts[T] => goal[T]) follows from (facts[y] => goal[y]) for a fresh y
		nf := make([]Fact, len(facts))
		for i, f := range facts {
			if f.Def != nil && o.Repl[f.Def] != nil {
				nf[i] = Fact{T: True} // the definition of a generalised symbol is dropped
				continue
			}
			nf[i] = Fact{T: Replace(f.T, o.Repl), Def: f.Def}
			if f.Def != nil && (nf[i].T.Op != "=" || nf[i].T.Args[0] != f.Def) {
				nf[i].Def = nil
			}
		}
		facts = nf
	}
	// cone of influence
	need := map[*Term]bool{}
	funs := map[string]bool{}
	seen := map[*Term]bool{}
	o.Goal.collect(need, funs, seen, map[*Term]int{})
	included := make([]bool, len(facts))
	fvars := make([]map[*Term]bool, len(facts))
	ffuns := make([]map[string]bool, len(facts))
	getVars := func(i int) (map[*Term]bool, map[string]bool) {
		if fvars[i] == nil {
			fvars[i] = map[*Term]bool{}
			ffuns[i] = map[string]bool{}
			facts[i].T.collect(fvars[i], ffuns[i], map[*Term]bool{}, map[*Term]int{})
		}
		return fvars[i], ffuns[i]
	}
	defIdx := map[*Term]int{}
	for i, f := range facts {
		if f.Def != nil && !o.Cut[f.Def] {
			defIdx[f.Def] = i
		}
	}
	work := []*Term{}
	for v := range need {
		work = append(work, v)
	}
	include := func(i int) {
		if included[i] {
			return
		}
		included[i] = true
		vs, fs := getVars(i)
		for v := range vs {
			if !need[v] {
				need[v] = true
				work = append(work, v)
			}
		}
		for f := range fs {
			funs[f] = true
		}
	}
	if noCOI {
		for i := range facts {
			include(i)
		}
	}
	for {
		for len(work) > 0 {
			v := work[len(work)-1]
			work = work[:len(work)-1]
			if i, ok := defIdx[v]; ok {
				include(i)
			}
		}
		// assumptions sharing a variable with the cone
		progress := false
		for i, f := range facts {
			if included[i] || f.Def != nil {
				continue
			}
			vs, _ := getVars(i)
			hit := len(vs) == 0 || (f.T.Op == "var" && f.T.S == BoolS)
			for v := range vs {
				if need[v] {
					hit = true
					break
				}
			}
			if hit {
				include(i)
				progress = true
			}
		}
		if !progress && len(work) == 0 {
			break
		}
	}
	var sb strings.Builder
	sb.WriteString("(set-option :produce-models true)\n(set-logic ALL)\n")
	sb.WriteString("(declare-datatypes ((Slice 0)) (((mk-slice (s-arr Int) (s-off Int) (s-len Int) (s-cap Int)))))\n")
	vars := make([]*Term, 0, len(need))
	for v := range need {
		vars = append(vars, v)
		if _, isPre := p.Fns[v.Name]; isPre {
			funs[v.Name] = true
		}
		for _, sym := range symRe.FindAllString(v.S.String(), -1) {
			funs[sym] = true
		}
	}
	if lean {
		gv, gf := map[*Term]bool{}, map[string]bool{}
		o.Goal.collect(gv, gf, map[*Term]bool{}, map[*Term]int{})
		// axioms may chain (sdiv -> smul): close the trigger set over axiom texts
		for changed := true; changed; {
			changed = false
			for _, b := range p.Blocks {
				if len(b.Defines) > 0 {
					continue
				}
				head := ""
				for _, u := range b.Uses {
					if _, isfn := p.Fns[u]; isfn {
						head = u
						break
					}
				}
				if head == "" || !gf[head] {
					continue
				}
				for _, u := range b.Uses {
					if _, isfn := p.Fns[u]; isfn && !gf[u] {
						if p.Ring[u] && !p.Ring[head] {
							continue // a definition mentioning + and * does not pull in the ring axioms
						}
						gf[u] = true
						changed = true
					}
				}
			}
		}
		if mode == "ground" {
			for h := range p.Ring {
				delete(gf, h)
			}
		}
		sb.WriteString(p.selectBlocks(funs, gf))
	} else {
		sb.WriteString(p.selectBlocks(funs, nil))
	}
	sort.Slice(vars, func(i, j int) bool { return vars[i].id < vars[j].id })
	for _, v := range vars {
		if _, isPre := p.Fns[v.Name]; isPre {
			continue
		}
		fmt.Fprintf(&sb, "(declare-const %s %s)\n", smtName(v.Name), v.S)
	}
	var incl []*Term
	for i, f := range facts {
		if included[i] {
			incl = append(incl, f.T)
		}
	}
	goal := o.Goal
	if !o.Cover && !noInstHints {
		g2, sks := skolemizeGoal(goal)
		goal = g2
		for _, sk := range sks {
			fmt.Fprintf(&sb, "(declare-const %s %s)\n", smtName(sk.Name), sk.S)
		}
		if mode == "ground" {
			gf, gsk := groundFacts(incl, goal, sks)
			declared := map[*Term]bool{}
			for _, sk := range sks {
				declared[sk] = true
			}
			for _, sk := range gsk {
				if !declared[sk] {
					declared[sk] = true
					fmt.Fprintf(&sb, "(declare-const %s %s)\n", smtName(sk.Name), sk.S)
				}
			}
			for _, f := range gf {
				sb.WriteString("(assert ")
				sb.WriteString(f.SMT())
				sb.WriteString(")\n")
			}
		} else {
			for _, f := range incl {
				sb.WriteString("(assert ")
				sb.WriteString(f.SMT())
				sb.WriteString(")\n")
			}
			for _, inst := range instances(incl, goal, sks) {
				sb.WriteString("(assert ")
				sb.WriteString(inst.SMT())
				sb.WriteString(") ; instance\n")
			}
		}
		sb.WriteString("(assert (not ")
		sb.WriteString(goal.SMT())
		sb.WriteString("))\n")
		sb.WriteString("(check-sat)\n")
		return sb.String()
	}
	for _, f := range incl {
		sb.WriteString("(assert ")
		sb.WriteString(f.SMT())
		sb.WriteString(")\n")
	}
	if o.Cover {
		sb.WriteString("(assert ")
		sb.WriteString(o.Goal.SMT())
		sb.WriteString(")\n")
	} else {
		sb.WriteString("(assert (not ")
		sb.WriteString(o.Goal.SMT())
		sb.WriteString("))\n")
	}
	sb.WriteString("(check-sat)\n")
	return sb.String()
}

var noInstHints = os.Getenv("GOCV_NOINST") != ""

// ---------- solvers ----------

type solverSpec struct {
	name string
	argv func(file string, timeoutS int) []string
}

var solvers = []solverSpec{
	{"z3-new", func(f string, t int) []string { return []string{"z3-new", fmt.Sprintf("-T:%d", t), f} }},
	{"z3", func(f string, t int) []string { return []string{"z3", fmt.Sprintf("-T:%d", t), f} }},
	{"cvc5", func(f string, t int) []string {
		return []string{"cvc5", "--produce-models", fmt.Sprintf("--tlimit=%d", t*1000), f}
	}},
}

var procSem = make(chan struct{}, 16)

type solveResult struct {
	solver string
	status string // unsat|sat|unknown|timeout|error
	out    string
	secs   float64
}

func runSolver(ctx context.Context, sp solverSpec, file string, timeoutS int, wantModel bool) solveResult {
	procSem <- struct{}{}
	defer func() { <-procSem }()
	if ctx.Err() != nil {
		return solveResult{solver: sp.name, status: "cancelled"}
	}
	start := time.Now()
	argv := sp.argv(file, timeoutS)
	cctx, cancel := context.WithTimeout(ctx, time.Duration(timeoutS+2)*time.Second)
	defer cancel()
	cmd := exec.CommandContext(cctx, argv[0], argv[1:]...)
	var out bytes.Buffer
	cmd.Stdout = &out
	cmd.Stderr = &out
	_ = cmd.Run()
	secs := time.Since(start).Seconds()
	first := strings.TrimSpace(strings.SplitN(out.String(), "\n", 2)[0])
	st := "error"
	switch first {
	case "unsat", "sat", "unknown":
		st = first
	case "timeout":
		st = "timeout"
	default:
		if cctx.Err() != nil {
			st = "timeout"
		}
	}
	return solveResult{solver: sp.name, status: st, out: out.String(), secs: secs}
}

var solverSeconds = map[string]float64{}
var solverWins = map[string]int{}
var statMu sync.Mutex

// discharge runs the portfolio on one obligation: first with the prelude axioms
// restricted to those triggered by symbols of the goal itself ("lean", a sound
// weakening of the hypotheses), then with every axiom reachable from the cone.
func (o *Obligation) discharge(p *Prelude, tmpdir string, timeoutS int) {
	if o.Status != "" {
		return
	}
	leanT := timeoutS / 2
	if leanT < 5 {
		leanT = timeoutS
	}
	if o.Cover {
		o.dischargeOnce(p, tmpdir, timeoutS, "full")
		return
	}
	var notes []string
	var secs float64
	groundTimedOut := false
	if o.hasQuantFacts() && !noInstHints {
		gT := 6
		if timeoutS > 60 {
			gT = 15
		}
		o.dischargeOnce(p, tmpdir, gT, "ground")
		if o.Status == "proved" {
			return
		}
		groundTimedOut = strings.Contains(o.Output, ": timeout") && o.SMTSize > 1<<20
		notes = append(notes, "[ground attempt] "+o.Output)
		secs += o.Seconds
		o.Status, o.Output, o.Model = "", "", nil
	}
	o.dischargeOnce(p, tmpdir, leanT, "lean")
	if o.Status == "proved" {
		o.Seconds += secs
		return
	}
	notes = append(notes, "[lean attempt] "+o.Output)
	secs += o.Seconds
	o.Status, o.Output, o.Model = "", "", nil
	o.dischargeOnce(p, tmpdir, timeoutS, "full")
	o.Seconds += secs
	if o.Status == "unknown" && groundTimedOut && atomic.AddInt32(&heavyRetries, 1) <= 3 {
		// Every encoding ran out of time and the ground VC (the one that normally decides loop-heavy
		// obligations) was cut off by its short wall-clock limit - which under a fully loaded machine
		// is a scheduling accident, not a verdict. Retry it, one at a time, with a generous limit.
		// (Only for ground VCs above 1 MB and at most three per run, so a change that breaks many
		// obligations is not slowed much.)
		full := o.Output
		secs = o.Seconds
		heavyMu.Lock()
		o.Status, o.Output, o.Model = "", "", nil
		o.dischargeOnce(p, tmpdir, 45, "ground")
		heavyMu.Unlock()
		o.Seconds += secs
		if o.Status != "proved" {
			notes = append(notes, "[ground retry] "+o.Output)
			o.Status, o.Output, o.Model = "unknown", full, nil
		}
	}
	if o.Status != "proved" {
		o.Output = o.Output + "\n" + strings.Join(notes, "\n")
	}
}

var heavyMu sync.Mutex
var heavyRetries int32

func (o *Obligation) hasQuantFacts() bool {
	c := map[*Term]bool{}
	for _, f := range o.facts[:o.NFacts] {
		if containsForall(f.T, c) {
			return true
		}
	}
	return false
}

func (o *Obligation) dischargeOnce(p *Prelude, tmpdir string, timeoutS int, mode string) {
	lean := mode != "full"
	text := o.emit(p, false, mode)
	o.SMTSize = len(text)
	suffix := ".smt2"
	if lean {
		suffix = "." + mode + ".smt2"
	}
	base := sanitize(o.Func + "." + o.Name)
	if len(base) > 180 {
		base = base[:180]
	}
	file := filepath.Join(tmpdir, base+suffix)
	o.SMTFile = file
	if len(text) > 8<<20 {
		o.Status = "error"
		o.Output = "VC exceeds 8 MB (tool limit)"
		return
	}
	if err := os.WriteFile(file, []byte(text), 0o644); err != nil {
		o.Status = "error"
		o.Output = err.Error()
		return
	}
	if mode == "ground" && len(text) > 3<<19 && timeoutS < 12 {
		timeoutS = 12 // parsing alone takes seconds on a loaded machine
	}
	if o.Cover {
		if timeoutS > 30 {
			timeoutS = 20 // thorough tier
		} else if timeoutS > 4 {
			timeoutS = 4
		}
	}
	ctx, cancel := context.WithCancel(context.Background())
	defer cancel()
	ch := make(chan solveResult, len(solvers))
	for _, sp := range solvers {
		go func(sp solverSpec) { ch <- runSolver(ctx, sp, file, timeoutS, false) }(sp)
	}
	var results []solveResult
	var win *solveResult
	for range solvers {
		r := <-ch
		results = append(results, r)
		statMu.Lock()
		solverSeconds[r.solver] += r.secs
		statMu.Unlock()
		if r.status == "unsat" || (r.status == "sat" && (!lean || o.Cover)) {
			win = &r
			cancel()
			break
		}
	}
	if win == nil && o.Cover {
		// vacuity smoke test: nobody could derive a contradiction
		o.Status = "proved"
		o.Solver = "not-refuted"
		for _, r := range results {
			o.Seconds += r.secs
		}
		return
	}
	if win == nil {
		o.Status = "unknown"
		var sb strings.Builder
		for _, r := range results {
			fmt.Fprintf(&sb, "%s: %s (%.1fs) %s\n", r.solver, r.status, r.secs, firstLines(r.out, 3))
		}
		o.Output = sb.String()
		for _, r := range results {
			o.Seconds += r.secs
		}
		return
	}
	o.Solver = win.solver
	o.Seconds = win.secs
	statMu.Lock()
	solverWins[win.solver]++
	statMu.Unlock()
	want := "unsat"
	if o.Cover {
		want = "sat"
	}
	if win.status == want {
		o.Status = "proved"
		return
	}
	o.Status = "failed"
	o.Output = win.solver + ": " + win.status
	if !o.Cover && win.status == "sat" {
		// fetch a model with z3-new (stable model printing)
		mfile := file + ".model.smt2"
		_ = os.WriteFile(mfile, []byte(text+"(get-model)\n"), 0o644)
		r := runSolver(context.Background(), solvers[0], mfile, timeoutS, true)
		if r.status == "sat" {
			o.Model = parseModel(r.out)
			o.Output += "\n" + firstLines(r.out, 400)
		}
	}
}

func firstLines(s string, n int) string {
	lines := strings.Split(s, "\n")
	if len(lines) > n {
		lines = lines[:n]
	}
	return strings.Join(lines, "\n")
}

// parseModel extracts (define-fun name () Sort value) entries.
func parseModel(out string) map[string]string {
	m := map[string]string{}
	i := strings.Index(out, "(")
	if i < 0 {
		return m
	}
	body := out[i:]
	forms := splitSexp(body)
	if len(forms) == 1 && strings.HasPrefix(forms[0], "((") || (len(forms) == 1 && strings.HasPrefix(strings.TrimSpace(forms[0][1:]), "(define-fun")) {
		forms = splitSexp(forms[0][1 : len(forms[0])-1])
	}
	for _, f := range forms {
		if !strings.HasPrefix(f, "(define-fun") {
			continue
		}
		it := splitSexp(f[1 : len(f)-1])
		if len(it) >= 5 && it[2] == "()" {
			m[strings.Trim(it[1], "|")] = strings.Join(it[4:], " ")
		}
	}
	return m
}

func dischargeAll(obls []*Obligation, p *Prelude, tmpdir string, timeoutS int, par int) {
	var wg sync.WaitGroup
	sem := make(chan struct{}, par)
	for _, o := range obls {
		if o.Status != "" {
			continue
		}
		wg.Add(1)
		sem <- struct{}{}
		go func(o *Obligation) {
			defer wg.Done()
			defer func() { <-sem }()
			o.discharge(p, tmpdir, timeoutS)
		}(o)
	}
	wg.Wait()
}
