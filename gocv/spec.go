package main

// Evaluation of contract expressions.

import (
	"fmt"
	"go/ast"
	"go/constant"
	"go/parser"
	"go/token"
	"go/types"
	"math/big"
	"strconv"
	"strings"
)

type SpecScope struct {
	inOld   bool
	names   map[string]*Value
	old     *State
	bound   map[string]*Term
	dyn     func(st *State)
	pkg     *types.Package
	results []*Value
	locals  func(name string, st *State) *Value
	addrOf  func(name string, st *State) *Value // &local for boxed (address-taken) locals
	parent  *SpecScope
}

var specCache = map[string]ast.Expr{}

func parseSpec(c Clause) ast.Expr {
	if e, ok := specCache[c.Src]; ok {
		return e
	}
	src := rewriteImplies(c.Src)
	e, err := parser.ParseExpr(src)
	if err != nil {
		panic(engErr("%s:%d: cannot parse contract expression %q: %v", c.File, c.Line, c.Src, err))
	}
	specCache[c.Src] = e
	return e
}

func (x *Exec) evalSpecBool(c Clause, sc *SpecScope, st *State) (res *Term) {
	defer func() {
		if r := recover(); r != nil {
			if ee, ok := r.(*EngineError); ok {
				panic(engErr("%s:%d: in %q: %s", c.File, c.Line, trunc(c.Src, 80), ee.Msg))
			}
			panic(r)
		}
	}()
	if sc.dyn != nil {
		sc.dyn(st)
	}
	for p := sc.parent; p != nil; p = p.parent {
		if p.dyn != nil {
			p.dyn(st)
		}
	}
	x.dry++ // no obligations from inside specifications
	defer func() { x.dry-- }()
	v := x.evalSpec(parseSpec(c), sc, st)
	if v.Tm == nil || v.Tm.S != BoolS {
		panic(engErr("contract clause is not boolean"))
	}
	return v.Tm
}

func (x *Exec) evalSpecVal(c Clause, sc *SpecScope, st *State) *Value {
	if sc.dyn != nil {
		sc.dyn(st)
	}
	return x.evalSpec(parseSpec(c), sc, st)
}

func (sc *SpecScope) lookup(name string) (*Value, bool) {
	for s := sc; s != nil; s = s.parent {
		if v, ok := s.names[name]; ok {
			return v, true
		}
	}
	return nil, false
}

// loopScope builds the scope in which loop invariants are evaluated: locals of
// the current frame visible at the loop, the function's parameters, old().
func (x *Exec) loopScope(st *State, n ast.Node, extra *SpecScope) *SpecScope {
	f := x.fr()
	sc := &SpecScope{names: map[string]*Value{}, old: x.frameOld(f), pkg: f.pkg, parent: extra}
	if len(x.frames) == 1 && x.topScope != nil {
		if extra == nil {
			sc.parent = x.topScope
		} else if extra.parent == nil {
			extra.parent = x.topScope
		}
	}
	inner := f.pkg.Scope().Innermost(n.Pos())
	sc.addrOf = func(name string, st *State) *Value {
		for s := inner; s != nil; s = s.Parent() {
			if o := s.Lookup(name); o != nil {
				if v, ok := o.(*types.Var); ok && f.boxed[v] {
					if val, inEnv := st.env[v]; inEnv && val.P != nil {
						return &Value{T: types.NewPointer(v.Type()), P: val.P}
					}
				}
			}
		}
		return nil
	}
	sc.locals = func(name string, st *State) *Value {
		// body scope of the loop first (for range vars), then outward
		for s := inner; s != nil; s = s.Parent() {
			if o := s.Lookup(name); o != nil {
				if v, ok := o.(*types.Var); ok {
					if _, inEnv := st.env[v]; inEnv {
						return x.readVar(v, st)
					}
				}
			}
		}
		// engine-introduced loop variables: range<N>_i, range<N>_visited, range<N>_key, visited<N>
		hidden := name
		if strings.HasPrefix(name, "visited") && len(name) > 7 {
			hidden = "range" + name[7:] + "_visited"
		}
		if strings.HasPrefix(hidden, "range") && strings.Contains(hidden, "_") {
			for o, val := range st.env {
				if o.Name() == hidden {
					return val
				}
			}
		}
		// variables declared by the loop header itself
		var found *Value
		for o, val := range st.env {
			if o.Name() == name && o.Pos() >= n.Pos() && o.Pos() <= n.End() {
				if f.boxed[o] {
					found = x.load(st, val.P, o.Type())
				} else {
					found = val
				}
			}
		}
		return found
	}
	return sc
}

func (x *Exec) frameOld(f *frame) *State {
	return x.old
}

func (x *Exec) specInt(v *Value) *Term {
	if v.Tm == nil {
		panic(engErr("integer expected in contract"))
	}
	return x.toInt(v)
}

func (x *Exec) evalSpec(e ast.Expr, sc *SpecScope, st *State) *Value {
	switch e := e.(type) {
	case *ast.ParenExpr:
		return x.evalSpec(e.X, sc, st)
	case *ast.BasicLit:
		switch e.Kind {
		case token.INT:
			bi, ok := new(big.Int).SetString(strings.ReplaceAll(e.Value, "_", ""), 0)
			if !ok {
				panic(engErr("bad integer literal %s", e.Value))
			}
			return &Value{Tm: IntLitB(bi)}
		case token.STRING:
			s, _ := strconv.Unquote(e.Value)
			return &Value{T: types.Typ[types.String], Tm: x.strLit(s)}
		}
		panic(engErr("unsupported literal %s in contract", e.Value))
	case *ast.Ident:
		return x.specIdent(e.Name, sc, st)
	case *ast.UnaryExpr:
		if id, ok := e.X.(*ast.Ident); ok && e.Op == token.AND {
			for s := sc; s != nil; s = s.parent {
				if s.addrOf != nil {
					if v := s.addrOf(id.Name, st); v != nil {
						return v
					}
				}
			}
			panic(engErr("&%s: not an address-taken local in contract", id.Name))
		}
		v := x.evalSpec(e.X, sc, st)
		switch e.Op {
		case token.NOT:
			return &Value{T: types.Typ[types.Bool], Tm: Not(v.Tm)}
		case token.SUB:
			if v.Tm.S.K == KBV {
				return &Value{T: v.T, Tm: BVNeg(v.Tm)}
			}
			return &Value{T: v.T, Tm: NegT(v.Tm)}
		case token.XOR:
			if v.Tm.S.K == KBV {
				return &Value{T: v.T, Tm: BVNot(v.Tm)}
			}
		case token.AND:
			// &x.f : interior pointer
			if se, ok := e.X.(*ast.SelectorExpr); ok {
				base := x.evalSpec(se.X, sc, st)
				if base.P != nil {
					et, _ := derefType(base.T)
					p, ft := x.specFieldPtr(base.P, et, se.Sel.Name)
					return &Value{T: types.NewPointer(ft), P: p}
				}
			}
		}
		panic(engErr("unsupported unary %s in contract", e.Op))
	case *ast.StarExpr:
		v := x.evalSpec(e.X, sc, st)
		if v.P == nil {
			panic(engErr("dereference of non-pointer in contract"))
		}
		et, _ := derefType(v.T)
		return x.load(st, v.P, et)
	case *ast.BinaryExpr:
		return x.specBinary(e, sc, st)
	case *ast.SelectorExpr:
		return x.specSelector(e, sc, st)
	case *ast.IndexExpr:
		base := x.evalSpec(e.X, sc, st)
		idx := x.evalSpec(e.Index, sc, st)
		return x.specIndex(base, idx, st)
	case *ast.CallExpr:
		return x.specCall(e, sc, st)
	case *ast.SliceExpr:
		base := x.evalSpec(e.X, sc, st)
		if base.Tm == nil || base.Tm.S != SliceS {
			panic(engErr("slice expression on non-slice in contract"))
		}
		lo, hi := IntLit(0), SLen(base.Tm)
		if e.Low != nil {
			lo = x.specInt(x.evalSpec(e.Low, sc, st))
		}
		if e.High != nil {
			hi = x.specInt(x.evalSpec(e.High, sc, st))
		}
		return &Value{T: base.T, Tm: MkSliceC(SArr(base.Tm), Add(SOff(base.Tm), lo), Sub(hi, lo), Sub(SCap(base.Tm), lo))}
	}
	panic(engErr("unsupported contract expression %T", e))
}

func (x *Exec) specIdent(name string, sc *SpecScope, st *State) *Value {
	switch name {
	case "true":
		return &Value{T: types.Typ[types.Bool], Tm: True}
	case "false":
		return &Value{T: types.Typ[types.Bool], Tm: False}
	case "nil":
		return &Value{T: types.Typ[types.UntypedNil], Tm: IntLit(0)}
	}
	for s := sc; s != nil; s = s.parent {
		if t, ok := s.bound[name]; ok {
			return &Value{Tm: t}
		}
	}
	inOld := false
	for s := sc; s != nil; s = s.parent {
		if s.inOld {
			inOld = true
		}
	}
	if inOld {
		if v, ok := sc.lookup(name); ok {
			return v
		}
	}
	for s := sc; s != nil; s = s.parent {
		if s.locals != nil {
			if v := s.locals(name, st); v != nil {
				return v
			}
		}
	}
	if v, ok := sc.lookup(name); ok {
		return v
	}
	if v, ok := x.ghosts[name]; ok {
		return v
	}
	// ghost heap map as a whole
	if gs, ok := x.eng.pre.Ghost[name]; ok {
		return &Value{Tm: st.hget("G!"+name, ArrS(IntS, gs))}
	}
	// prelude constant
	if fn, ok := x.eng.pre.Fns[name]; ok && len(fn.Args) == 0 {
		return &Value{Tm: Var(name, fn.Ret)}
	}
	// package-level constant / variable
	for s := sc; s != nil; s = s.parent {
		if s.pkg != nil {
			if o := s.pkg.Scope().Lookup(name); o != nil {
				switch o := o.(type) {
				case *types.Const:
					return x.constValue(types.TypeAndValue{Type: o.Type(), Value: o.Val()})
				case *types.Var:
					return x.global(o, st)
				}
			}
		}
	}
	panic(engErr("unknown identifier %q in contract", name))
}

func (x *Exec) specFieldPtr(p *Pointer, t types.Type, name string) (*Pointer, types.Type) {
	if p.Idx != nil {
		// field of a struct element of an array/slice (stored field-wise)
		if len(p.Path) != 0 {
			panic(engErr("field of array element inside a struct in contract"))
		}
		fs, key := x.fieldsOf(t)
		for _, f := range fs {
			if f.Name == name {
				np := &Pointer{Base: p.Base, Idx: p.Idx, ArrT: p.ArrT, OwnerKey: p.OwnerKey}
				if len(p.EPath) == 0 {
					np.OwnerKey = key
				}
				np.EPath = append(append([]string{}, p.EPath...), f.Name)
				return np, f.T
			}
		}
		panic(engErr("type %s has no field %s", t, name))
	}
	if o, q := x.eng.override(t); o != nil {
		for i, f := range o.Fields {
			if f == name {
				np := &Pointer{Base: p.Base, OwnerKey: p.OwnerKey}
				if len(p.Path) == 0 {
					np.OwnerKey = q
				}
				np.Path = append(append([]string{}, p.Path...), f)
				_ = i
				return np, nil
			}
		}
		panic(engErr("type %s has no ghost field %s", q, name))
	}
	obj, index, _ := types.LookupFieldOrMethod(t, true, nil, name)
	if obj == nil {
		// unexported field: need the package
		if n, ok := types.Unalias(t).(*types.Named); ok {
			obj, index, _ = types.LookupFieldOrMethod(t, true, n.Obj().Pkg(), name)
		}
	}
	fv, ok := obj.(*types.Var)
	if !ok {
		panic(engErr("type %s has no field %s", t, name))
	}
	cur := t
	np := p
	for _, i := range index {
		if et, isPtr := derefType(cur); isPtr {
			panic(engErr("embedded pointer in contract path (%s)", et))
		}
		fs, key := x.fieldsOf(cur)
		q := &Pointer{Base: np.Base, OwnerKey: np.OwnerKey}
		if len(np.Path) == 0 {
			q.OwnerKey = key
		}
		q.Path = append(append([]string{}, np.Path...), fs[i].Name)
		np = q
		cur = fs[i].T
	}
	return np, fv.Type()
}

func (x *Exec) specSelector(e *ast.SelectorExpr, sc *SpecScope, st *State) *Value {
	// pkg.Name ?
	if id, ok := e.X.(*ast.Ident); ok {
		if _, known := sc.lookup(id.Name); !known {
			isLocal := false
			for s := sc; s != nil; s = s.parent {
				if s.locals != nil && s.locals(id.Name, st) != nil {
					isLocal = true
				}
				if _, b := s.bound[id.Name]; b {
					isLocal = true
				}
			}
			if !isLocal {
				for _, p := range x.eng.pkgs {
					if p.Types.Name() == id.Name {
						if o := p.Types.Scope().Lookup(e.Sel.Name); o != nil {
							switch o := o.(type) {
							case *types.Const:
								return x.constValue(types.TypeAndValue{Type: o.Type(), Value: o.Val()})
							case *types.Var:
								return x.global(o, st)
							}
						}
					}
				}
			}
		}
	}
	base := x.evalSpec(e.X, sc, st)
	name := e.Sel.Name
	if base.P != nil {
		et, _ := derefType(base.T)
		if base.T == nil {
			panic(engErr("untyped pointer in contract selector .%s", name))
		}
		p, ft := x.specFieldPtr(base.P, et, name)
		if ft == nil {
			// ghost field
			o, _ := x.eng.override(et)
			for i, f := range o.Fields {
				if f == name {
					return &Value{Tm: x.loadRaw(st, p, o.Sorts[i], nil)}
				}
			}
		}
		return x.load(st, p, ft)
	}
	if base.Fs != nil {
		if o, _ := x.eng.override(base.T); o != nil {
			for i, f := range o.Fields {
				if f == name {
					return base.Fs[i]
				}
			}
		}
		stt := types.Unalias(base.T).Underlying().(*types.Struct)
		for i := 0; i < stt.NumFields(); i++ {
			if stt.Field(i).Name() == name {
				return base.Fs[i]
			}
		}
	}
	// interface value holding a pointer to a known struct: allow field access when the
	// scope has a type hint name "T(x)" — not supported
	panic(engErr("cannot select .%s from value of type %v in contract", name, base.T))
}

func (x *Exec) specIndex(base, idx *Value, st *State) *Value {
	if base.P != nil {
		// pointer to array
		et, _ := derefType(base.T)
		at, ok := types.Unalias(et).Underlying().(*types.Array)
		if !ok {
			panic(engErr("index of pointer to non-array in contract"))
		}
		p := &Pointer{Base: base.P.Base, OwnerKey: base.P.OwnerKey, Path: base.P.Path, Idx: x.specInt(idx), ArrT: et}
		return x.load(st, p, at.Elem())
	}
	if base.Tm == nil {
		panic(engErr("index of struct value in contract"))
	}
	switch base.Tm.S.K {
	case KSlice:
		var et types.Type
		if base.T != nil {
			et = types.Unalias(base.T).Underlying().(*types.Slice).Elem()
		} else {
			panic(engErr("untyped slice indexed in contract"))
		}
		p := &Pointer{Base: SArr(base.Tm), Idx: Add(SOff(base.Tm), x.specInt(idx)), ArrT: types.NewArray(et, -1)}
		return x.load(st, p, et)
	case KArr:
		it := idx.term()
		if it.S != base.Tm.S.Dom {
			if base.Tm.S.Dom == IntS {
				it = x.specInt(idx)
			} else if base.Tm.S.Dom.K == KBV && it.S == IntS {
				it = Int2BV(it, base.Tm.S.Dom.W)
			}
		}
		var et types.Type
		if base.T != nil {
			if at, ok := types.Unalias(base.T).Underlying().(*types.Array); ok {
				et = at.Elem()
			}
		}
		r := Select(base.Tm, it)
		if et != nil {
			return x.typed(et, r)
		}
		return &Value{Tm: r}
	case KInt:
		// map
		if base.T != nil {
			if mt, ok := types.Unalias(base.T).Underlying().(*types.Map); ok {
				// Go semantics: the zero value for an absent key
				k := x.coerce(idx, mt.Key()).term()
				ok := Select(Select(st.hget(x.mapDomKey(mt)), base.Tm), k)
				return x.mergeVal(ok, x.mapLoad(st, mt, base.Tm, k), x.zero(mt.Elem()))
			}
		}
	}
	panic(engErr("unsupported index in contract (base sort %s)", base.Tm.S))
}

func (x *Exec) specBinary(e *ast.BinaryExpr, sc *SpecScope, st *State) *Value {
	l := x.evalSpec(e.X, sc, st)
	r := x.evalSpec(e.Y, sc, st)
	bt := types.Typ[types.Bool]
	switch e.Op {
	case token.LAND:
		return &Value{T: bt, Tm: And(l.Tm, r.Tm)}
	case token.LOR:
		return &Value{T: bt, Tm: Or(l.Tm, r.Tm)}
	case token.EQL:
		return &Value{T: bt, Tm: x.specEqual(l, r)}
	case token.NEQ:
		return &Value{T: bt, Tm: Not(x.specEqual(l, r))}
	}
	lt, rt := l.Tm, r.Tm
	if lt == nil || rt == nil {
		panic(engErr("operator %s on non-scalar in contract", e.Op))
	}
	// unify sorts
	if lt.S != rt.S {
		switch {
		case lt.S.K == KBV && rt.S == IntS && rt.IsLit():
			rt = BVLit(rt.Int, lt.S.W)
		case rt.S.K == KBV && lt.S == IntS && lt.IsLit():
			lt = BVLit(lt.Int, rt.S.W)
		case lt.S.K == KBV && rt.S == IntS:
			lt = x.toInt(l)
		case rt.S.K == KBV && lt.S == IntS:
			rt = x.toInt(r)
		default:
			panic(engErr("operator %s on sorts %s and %s in contract", e.Op, lt.S, rt.S))
		}
	}
	if lt.S.K == KBV {
		// signedness comes from whichever operand carries a sized integer type (a literal has none)
		signed := false
		found := false
		for _, o := range []*Value{l, r} {
			if o.T != nil && !found {
				if ii, ok := intTypeInfo(o.T); ok && ii.w > 0 {
					signed = ii.signed
					found = true
				}
			}
		}
		pre := "bvu"
		if signed {
			pre = "bvs"
		}
		switch e.Op {
		case token.LSS:
			return &Value{T: bt, Tm: BVCmp(pre+"lt", lt, rt)}
		case token.LEQ:
			return &Value{T: bt, Tm: BVCmp(pre+"le", lt, rt)}
		case token.GTR:
			return &Value{T: bt, Tm: BVCmp(pre+"gt", lt, rt)}
		case token.GEQ:
			return &Value{T: bt, Tm: BVCmp(pre+"ge", lt, rt)}
		case token.ADD:
			return &Value{T: l.T, Tm: BVBin("bvadd", lt, rt)}
		case token.SUB:
			return &Value{T: l.T, Tm: BVBin("bvsub", lt, rt)}
		case token.MUL:
			return &Value{T: l.T, Tm: BVBin("bvmul", lt, rt)}
		case token.AND:
			return &Value{T: l.T, Tm: BVBin("bvand", lt, rt)}
		case token.OR:
			return &Value{T: l.T, Tm: BVBin("bvor", lt, rt)}
		case token.XOR:
			return &Value{T: l.T, Tm: BVBin("bvxor", lt, rt)}
		case token.SHL:
			return &Value{T: l.T, Tm: BVBin("bvshl", lt, rt)}
		case token.SHR:
			if signed {
				return &Value{T: l.T, Tm: BVBin("bvashr", lt, rt)}
			}
			return &Value{T: l.T, Tm: BVBin("bvlshr", lt, rt)}
		}
		panic(engErr("unsupported bv operator %s in contract", e.Op))
	}
	if lt.S != IntS {
		panic(engErr("operator %s on sort %s in contract", e.Op, lt.S))
	}
	switch e.Op {
	case token.LSS:
		return &Value{T: bt, Tm: Lt(lt, rt)}
	case token.LEQ:
		return &Value{T: bt, Tm: Le(lt, rt)}
	case token.GTR:
		return &Value{T: bt, Tm: Gt(lt, rt)}
	case token.GEQ:
		return &Value{T: bt, Tm: Ge(lt, rt)}
	case token.ADD:
		return &Value{Tm: Add(lt, rt)}
	case token.SUB:
		return &Value{Tm: Sub(lt, rt)}
	case token.MUL:
		return &Value{Tm: Mul(lt, rt)}
	case token.QUO:
		return &Value{Tm: DivE(lt, rt)}
	case token.REM:
		return &Value{Tm: ModE(lt, rt)}
	case token.SHL:
		if rt.IsLit() {
			return &Value{Tm: Mul(lt, IntLitB(pow2(uint(rt.Int.Int64()))))}
		}
	case token.SHR:
		if rt.IsLit() {
			return &Value{Tm: DivE(lt, IntLitB(pow2(uint(rt.Int.Int64()))))}
		}
	}
	panic(engErr("unsupported operator %s in contract", e.Op))
}

func (x *Exec) specEqual(l, r *Value) *Term {
	if l.Tm != nil && r.Tm != nil && l.Tm.S != r.Tm.S {
		lt, rt := l.Tm, r.Tm
		switch {
		case lt.S.K == KBV && rt.S == IntS && rt.IsLit():
			return Eq(lt, BVLit(rt.Int, lt.S.W))
		case rt.S.K == KBV && lt.S == IntS && lt.IsLit():
			return Eq(BVLit(lt.Int, rt.S.W), rt)
		case lt.S.K == KBV && rt.S == IntS:
			return Eq(x.toInt(l), rt)
		case rt.S.K == KBV && lt.S == IntS:
			return Eq(lt, x.toInt(r))
		}
	}
	return x.equal(l, r)
}

func (x *Exec) specCall(e *ast.CallExpr, sc *SpecScope, st *State) *Value {
	bt := types.Typ[types.Bool]
	// method-style calls are not supported; only plain names
	id, ok := e.Fun.(*ast.Ident)
	if !ok {
		panic(engErr("unsupported call form in contract"))
	}
	name := id.Name
	arg := func(i int) *Value { return x.evalSpec(e.Args[i], sc, st) }
	switch name {
	case "field":
		// field(T.f): the whole heap map of field f of struct type T (declared in the contract's package)
		se, ok := e.Args[0].(*ast.SelectorExpr)
		if !ok {
			panic(engErr("field(T.f) expected"))
		}
		var tn types.Object
		if id, ok := se.X.(*ast.Ident); ok {
			for s := sc; s != nil && tn == nil; s = s.parent {
				if s.pkg != nil {
					tn = s.pkg.Scope().Lookup(id.Name)
				}
			}
		} else if q, ok := se.X.(*ast.SelectorExpr); ok {
			for _, p := range x.eng.pkgs {
				if p.Types.Name() == q.X.(*ast.Ident).Name {
					tn = p.Types.Scope().Lookup(q.Sel.Name)
				}
			}
		}
		if tn == nil {
			panic(engErr("field(): unknown type in %s", exprString(se.X)))
		}
		p, ft := x.specFieldPtr(&Pointer{Base: IntLit(1)}, tn.Type(), se.Sel.Name)
		k, ks := x.locKey(p, x.sortOf(ft), ft)
		return &Value{Tm: st.hget(k, ks)}
	case "now":
		// current value of a (possibly reassigned) parameter or local
		id, ok := e.Args[0].(*ast.Ident)
		if !ok {
			panic(engErr("now(x) expects an identifier"))
		}
		var best types.Object
		for o := range st.env {
			if o.Name() == id.Name && (best == nil || o.Pos() < best.Pos()) {
				best = o
			}
		}
		if best == nil {
			panic(engErr("now(%s): no such variable", id.Name))
		}
		return x.readVar(best, st)
	case "old":
		if sc.old == nil {
			panic(engErr("old() not available here"))
		}
		// old(e): the entry heap; parameters denote their entry values, other locals their current values
		os := sc.oldState()
		hyb := &State{guard: st.guard, env: st.env, heap: os.heap, allocBase: os.allocBase, allocK: os.allocK}
		osc := &SpecScope{names: map[string]*Value{}, parent: sc, old: sc.old, pkg: sc.pkg, inOld: true}
		return x.evalSpec(e.Args[0], osc, hyb)
	case "implies__":
		return &Value{T: bt, Tm: Implies(arg(0).Tm, arg(1).Tm)}
	case "ite":
		c := arg(0).Tm
		return x.mergeVal(c, arg(1), arg(2))
	case "forall", "exists":
		// forall(k, body) | forall(k, lo, hi, body) | forall(k, "Sort", body)
		kid, ok := e.Args[0].(*ast.Ident)
		if !ok {
			panic(engErr("%s: first argument must be an identifier", name))
		}
		srt := IntS
		bodyIdx := len(e.Args) - 1
		if len(e.Args) == 3 {
			if bl, ok := e.Args[1].(*ast.BasicLit); ok && bl.Kind == token.STRING {
				s, _ := strconv.Unquote(bl.Value)
				srt = parseSort(s)
			}
		}
		bvName := fmt.Sprintf("%s!q%d", kid.Name, len(sc.boundChain()))
		bvT := Var(bvName, srt)
		inner := &SpecScope{names: map[string]*Value{}, bound: map[string]*Term{kid.Name: bvT}, parent: sc, old: sc.old, pkg: sc.pkg}
		x.vc.noDefine++
		body := x.evalSpec(e.Args[bodyIdx], inner, st).Tm
		x.vc.noDefine--
		if len(e.Args) == 4 {
			lo := x.specInt(x.evalSpec(e.Args[1], inner, st))
			hi := x.specInt(x.evalSpec(e.Args[2], inner, st))
			rng := And(Le(lo, bvT), Lt(bvT, hi))
			if name == "forall" {
				body = Implies(rng, body)
			} else {
				body = And(rng, body)
			}
		}
		if name == "forall" {
			return &Value{T: bt, Tm: Forall([]*Term{bvT}, body)}
		}
		return &Value{T: bt, Tm: Not(Forall([]*Term{bvT}, Not(body)))}
	case "len":
		v := arg(0)
		if v.P != nil {
			et, _ := derefType(v.T)
			if at, ok := types.Unalias(et).Underlying().(*types.Array); ok {
				return &Value{Tm: IntLit(at.Len())}
			}
		}
		switch {
		case v.Tm.S == SliceS:
			return &Value{T: types.Typ[types.Int], Tm: SLen(v.Tm)}
		case v.Tm.S == StrS:
			return &Value{T: types.Typ[types.Int], Tm: App("strlen", IntS, v.Tm)}
		case v.T != nil:
			switch u := types.Unalias(v.T).Underlying().(type) {
			case *types.Array:
				return &Value{Tm: IntLit(u.Len())}
			case *types.Map:
				return &Value{T: types.Typ[types.Int], Tm: x.mapLen(st, v.Tm)}
			}
		}
		panic(engErr("len of unsupported value in contract"))
	case "fresh":
		v := arg(0)
		var ref *Term
		if v.Tm != nil && v.Tm.S == SliceS {
			ref = SArr(v.Tm)
		} else {
			ref = v.term()
		}
		return &Value{T: bt, Tm: And(Ge(ref, sc.oldState().allocTop()), Gt(ref, IntLit(0)), Lt(ref, st.allocTop()))}
	case "allocated":
		v := arg(0)
		return &Value{T: bt, Tm: Lt(v.term(), st.allocTop())}
	case "dyn":
		return &Value{Tm: App("dtype", IntS, arg(0).term())}
	case "implementsT":
		v := arg(0)
		s, _ := strconv.Unquote(e.Args[1].(*ast.BasicLit).Value)
		id, ok := x.eng.typeIDs[s]
		if !ok {
			id = int64(len(x.eng.typeIDs) + 1)
			x.eng.typeIDs[s] = id
			x.eng.typeNames = append(x.eng.typeNames, s)
		}
		return &Value{T: bt, Tm: And(Not(Eq(v.term(), IntLit(0))), App("implements", BoolS, App("dtype", IntS, v.term()), IntLit(id)))}
	case "hastype":
		v := arg(0)
		s, _ := strconv.Unquote(e.Args[1].(*ast.BasicLit).Value)
		id, ok := x.eng.typeIDs[s]
		if !ok {
			id = int64(len(x.eng.typeIDs) + 1)
			x.eng.typeIDs[s] = id
			x.eng.typeNames = append(x.eng.typeNames, s)
		}
		return &Value{T: bt, Tm: And(Not(Eq(v.term(), IntLit(0))), Eq(App("dtype", IntS, v.term()), IntLit(id)))}
	case "elems":
		v := arg(0)
		if v.P != nil {
			et, _ := derefType(v.T)
			return x.load(st, v.P, et)
		}
		et := types.Unalias(v.T).Underlying().(*types.Slice).Elem()
		return &Value{Tm: x.sliceContents(st, v.Tm, x.sortOf(et), et)}
	case "refheap":
		// refheap(): the whole heap of backing arrays of slices of references (pointers/interfaces)
		k, ks := x.elemKey(IntS, types.NewPointer(types.Typ[types.Int]))
		return &Value{Tm: st.hget(k, ks)}
	case "byteheap":
		// byteheap(): the whole heap of byte-slice backing arrays (array reference -> contents)
		bt := types.Typ[types.Uint8]
		k, ks := x.elemKey(x.sortOf(bt), bt)
		return &Value{Tm: st.hget(k, ks)}
	case "first":
		// first(x): the value local x received at its declaration
		id, ok := e.Args[0].(*ast.Ident)
		if !ok {
			panic(engErr("first(local) expected"))
		}
		if len(x.frames) > 0 {
			if v, ok := x.frames[0].firstVal[id.Name]; ok {
				return v
			}
		}
		panic(engErr("first(%s): no such declared local", id.Name))
	case "lebits":
		// lebits(arr, lo, n): bits lo .. lo+n-1 of the little-endian byte array arr (a [N]byte value in
		// bv mode), zero-extended to 64 bits
		v := arg(0)
		lo, ok1 := x.evalSpec(e.Args[1], sc, st).Tm, true
		nn := x.evalSpec(e.Args[2], sc, st).Tm
		if !ok1 || !lo.IsLit() || !nn.IsLit() || v.Tm == nil || v.Tm.S.K != KArr || v.Tm.S.Rng.K != KBV || v.Tm.S.Rng.W != 8 {
			panic(engErr("lebits(bytearray, lo, n) expects a byte array in bv mode and literal bounds"))
		}
		l, n := int(lo.Int.Int64()), int(nn.Int.Int64())
		if n <= 0 || n > 64 {
			panic(engErr("lebits: 1 <= n <= 64"))
		}
		first, last := l/8, (l+n-1)/8
		var cat *Term
		for k := first; k <= last; k++ {
			var idx *Term = IntLit(int64(k))
			if v.Tm.S.Dom.K == KBV {
				idx = BVLit(big.NewInt(int64(k)), v.Tm.S.Dom.W)
			}
			b := Select(v.Tm, idx)
			if cat == nil {
				cat = b
			} else {
				cat = mk("concat", "", BVS(cat.S.W+8), nil, b, cat)
			}
		}
		sh := l % 8
		ex := mk(fmt.Sprintf("(_ extract %d %d)", sh+n-1, sh), "", BVS(n), nil, cat)
		if n < 64 {
			ex = mk(fmt.Sprintf("(_ zero_extend %d)", 64-n), "", BVS(64), nil, ex)
		}
		return &Value{T: types.Typ[types.Int64], Tm: ex}
	case "felems":
		// felems(s, f): the array (index -> value of field f) behind a slice of struct values
		v := arg(0)
		id, ok := e.Args[1].(*ast.Ident)
		if !ok {
			panic(engErr("felems(s, field) expected"))
		}
		et := types.Unalias(v.T).Underlying().(*types.Slice).Elem()
		fs, key := x.fieldsOf(et)
		for _, f := range fs {
			if f.Name != id.Name {
				continue
			}
			srt := f.S
			if srt == nil {
				srt = x.sortOf(f.T)
			}
			k, ks := x.structElemKey(key, []string{f.Name}, srt, f.T)
			return &Value{Tm: Select(st.hget(k, ks), SArr(v.Tm))}
		}
		panic(engErr("felems: no field %s", id.Name))
	case "bytes":
		// abstract content of a byte slice
		v := arg(0)
		if v.Tm != nil && v.Tm.S == IntS && v.Tm.IsLit() {
			v = &Value{Tm: MkSlice(IntLit(0), IntLit(0), IntLit(0))}
		}
		if v.Tm == nil || v.Tm.S != SliceS {
			panic(engErr("bytes() expects a slice"))
		}
		bs := x.sortOf(types.Typ[types.Uint8])
		fn := "bytesval"
		if bs.K == KBV {
			fn = "bytesval8"
		}
		return &Value{Tm: App(fn, UnS("Bytes"), x.sliceContents(st, v.Tm, bs, types.Typ[types.Uint8]), SOff(v.Tm), SLen(v.Tm))}
	case "asptr":
		// asptr(e, T): view an interface/reference value as *T (T a struct type of the contract's package)
		v := arg(0)
		var tn types.Object
		tname := ""
		if bl, isStr := e.Args[1].(*ast.BasicLit); isStr {
			// asptr(e, "pkg/path.Type")
			q, _ := strconv.Unquote(bl.Value)
			tname = q
			if i := strings.LastIndex(q, "."); i > 0 {
				for _, p := range x.eng.pkgs {
					if relPkg(p.PkgPath) == q[:i] {
						tn = p.Types.Scope().Lookup(q[i+1:])
					}
				}
			}
		} else if tid, ok := e.Args[1].(*ast.Ident); ok {
			tname = tid.Name
			for s := sc; s != nil && tn == nil; s = s.parent {
				if s.pkg != nil {
					tn = s.pkg.Scope().Lookup(tid.Name)
				}
			}
		} else {
			panic(engErr("asptr(e, T): T must be a type name"))
		}
		tid := &ast.Ident{Name: tname}
		if tn == nil {
			panic(engErr("asptr: unknown type %s", tid.Name))
		}
		if v.P != nil {
			return &Value{T: types.NewPointer(tn.Type()), P: v.P}
		}
		return &Value{T: types.NewPointer(tn.Type()), P: &Pointer{Base: v.term()}}
	case "byteat":
		// byteat(slice, i): element i of a byte slice given without Go type (e.g. a ghost Slice)
		sv, iv := arg(0), arg(1)
		bs := x.sortOf(types.Typ[types.Uint8])
		return x.typed(types.Typ[types.Uint8], Select(x.sliceContents(st, sv.Tm, bs, types.Typ[types.Uint8]), Add(SOff(sv.Tm), x.specInt(iv))))
	case "cap":
		return &Value{T: types.Typ[types.Int], Tm: SCap(arg(0).Tm)}
	case "arr":
		return &Value{Tm: SArr(arg(0).Tm)}
	case "off":
		return &Value{Tm: SOff(arg(0).Tm)}
	case "dom":
		v := arg(0)
		mt := types.Unalias(v.T).Underlying().(*types.Map)
		return &Value{Tm: Select(st.hget(x.mapDomKey(mt)), v.Tm)}
	case "mapvals":
		v := arg(0)
		mt := types.Unalias(v.T).Underlying().(*types.Map)
		return &Value{Tm: Select(st.hget(x.mapValKey(mt)), v.Tm)}
	case "int":
		v := arg(0)
		if v.Tm.S.K == KBV {
			return &Value{Tm: BV2Int(v.Tm, false)}
		}
		return &Value{Tm: v.Tm}
	case "sint":
		v := arg(0)
		if v.Tm.S.K == KBV {
			return &Value{Tm: BV2Int(v.Tm, true)}
		}
		return &Value{Tm: v.Tm}
	case "baseref":
		// reference of the heap object that contains the location a (possibly interior) pointer designates
		v := arg(0)
		if v.P != nil {
			return &Value{Tm: v.P.Base}
		}
		return &Value{Tm: v.term()}
	case "ref":
		// plain reference of a pointer / interface value
		return &Value{Tm: arg(0).term()}
	case "select":
		a, i := arg(0), arg(1)
		return x.specIndex(a, i, st)
	case "store":
		a, i, v := arg(0), arg(1), arg(2)
		return &Value{T: a.T, Tm: Store(a.Tm, x.coerceToSort(i, a.Tm.S.Dom), x.coerceToSort(v, a.Tm.S.Rng))}
	}
	if strings.HasPrefix(name, "bv") {
		if w, err := strconv.Atoi(name[2:]); err == nil {
			v := arg(0)
			if v.Tm.S == IntS {
				return &Value{Tm: Int2BV(v.Tm, w)}
			}
			return &Value{Tm: BVResize(v.Tm, w, false)}
		}
	}
	// ghost field read
	if gs, ok := x.eng.pre.Ghost[name]; ok {
		key, ref := ghostLoc(name, arg(0))
		return &Value{Tm: Select(st.hget(key, ArrS(IntS, gs)), ref)}
	}
	// prelude function
	if fn, ok := x.eng.pre.Fns[name]; ok {
		if len(fn.Args) != len(e.Args) {
			panic(engErr("%s expects %d arguments", name, len(fn.Args)))
		}
		var args []*Term
		for i := range e.Args {
			args = append(args, x.coerceToSortV(arg(i), fn.Args[i], st))
		}
		return &Value{Tm: App(name, fn.Ret, args...)}
	}
	panic(engErr("unknown function %q in contract", name))
}

func (sc *SpecScope) boundChain() []string {
	var out []string
	for s := sc; s != nil; s = s.parent {
		for k := range s.bound {
			out = append(out, k)
		}
	}
	return out
}

func (sc *SpecScope) oldState() *State {
	for s := sc; s != nil; s = s.parent {
		if s.old != nil {
			return s.old
		}
	}
	panic(engErr("no old state"))
}

func (x *Exec) coerceToSort(v *Value, s *Sort) *Term {
	t := v.term()
	if t.S == s {
		return t
	}
	if s.K == KBV && t.S == IntS {
		return Int2BV(t, s.W)
	}
	if s == IntS && t.S.K == KBV {
		return x.toInt(v)
	}
	panic(engErr("contract argument of sort %s where %s expected", t.S, s))
}

// coerceToSortV additionally dereferences pointers to arrays / loads slices' contents.
func (x *Exec) coerceToSortV(v *Value, s *Sort, st *State) *Term {
	if v.P != nil && s.K == KArr {
		et, _ := derefType(v.T)
		return x.load(st, v.P, et).Tm
	}
	if v.Tm != nil && v.Tm.S == SliceS && s.K == KArr {
		var et types.Type
		if v.T != nil {
			et = types.Unalias(v.T).Underlying().(*types.Slice).Elem()
		}
		return x.sliceContents(st, v.Tm, s.Rng, et)
	}
	return x.coerceToSort(v, s)
}

// specAddr computes the heap location designated by a selector chain p.f.g where p is a pointer.
func (x *Exec) specAddr(e ast.Expr, sc *SpecScope, st *State) (*Pointer, types.Type, bool) {
	switch e := e.(type) {
	case *ast.ParenExpr:
		return x.specAddr(e.X, sc, st)
	case *ast.SelectorExpr:
		// base is a pointer value?
		if bp, bt, ok := x.specAddr(e.X, sc, st); ok {
			if et, isPtr := derefType(bt); isPtr {
				// the location holds a pointer: designate a field of the object it points to
				if pv := x.load(st, bp, bt); pv != nil && pv.P != nil {
					bp, bt = pv.P, et
				}
			}
			p, ft := x.specFieldPtr(bp, bt, e.Sel.Name)
			if ft == nil {
				return nil, nil, false
			}
			return p, ft, true
		}
		base := x.evalSpec(e.X, sc, st)
		if base.P != nil && base.T != nil {
			et, _ := derefType(base.T)
			p, ft := x.specFieldPtr(base.P, et, e.Sel.Name)
			if ft == nil {
				return nil, nil, false
			}
			return p, ft, true
		}
		return nil, nil, false
	case *ast.StarExpr:
		v := x.evalSpec(e.X, sc, st)
		if v.P != nil && v.T != nil {
			et, _ := derefType(v.T)
			return v.P, et, true
		}
	}
	return nil, nil, false
}

// specLocs evaluates a modifies designator.
func (x *Exec) specLocs(src string, sc *SpecScope, st *State, c *Contract) []*specLoc {
	src = strings.TrimSpace(src)
	if src == "all" || src == "*" {
		return []*specLoc{{all: true}}
	}
	e, err := parser.ParseExpr(src)
	if err != nil {
		panic(engErr("%s: cannot parse modifies designator %q", c.Key, src))
	}
	x.dry++
	defer func() { x.dry-- }()
	if ce, ok := e.(*ast.CallExpr); ok {
		if id, ok := ce.Fun.(*ast.Ident); ok {
			if gs, isGhost := x.eng.pre.Ghost[id.Name]; isGhost {
				key, ref := ghostLoc(id.Name, x.evalSpec(ce.Args[0], sc, st))
				return []*specLoc{{key: key, ref: ref, ghost: gs}}
			}
			switch id.Name {
			case "allof":
				// allof(ghost): the whole ghost map
				g := ce.Args[0].(*ast.Ident).Name
				if gs, ok := x.eng.pre.Ghost[g]; ok {
					return []*specLoc{{key: "G!" + g, ghost: gs, whole: true}}
				}
				panic(engErr("allof: unknown ghost %s", g))
			case "elems":
				v := x.evalSpec(ce.Args[0], sc, st)
				if v.P != nil {
					et, _ := derefType(v.T)
					return []*specLoc{{ptr: v.P, t: et}}
				}
				et := types.Unalias(v.T).Underlying().(*types.Slice).Elem()
				at := types.NewArray(et, -1)
				return []*specLoc{{ptr: &Pointer{Base: SArr(v.Tm)}, t: at}}
			case "mapof":
				v := x.evalSpec(ce.Args[0], sc, st)
				mt := types.Unalias(v.T).Underlying().(*types.Map)
				return []*specLoc{{mapT: mt, ref: v.Tm}}
			}
		}
	}
	if se, ok := e.(*ast.StarExpr); ok {
		pv := x.evalSpec(se.X, sc, st)
		if pv.P == nil {
			panic(engErr("%s: modifies designator %q dereferences a non-pointer", c.Key, src))
		}
		et, _ := derefType(pv.T)
		return []*specLoc{{ptr: pv.P, t: et}}
	}
	if _, isSel := e.(*ast.SelectorExpr); isSel {
		if p, ft, ok := x.specAddr(e, sc, st); ok {
			return []*specLoc{{ptr: p, t: ft}}
		}
	}
	v := x.evalSpec(e, sc, st)
	if v.P == nil {
		// "p.f" evaluated to the field's value; we need its location: re-evaluate as &expr
		if se, ok := e.(*ast.SelectorExpr); ok {
			base := x.evalSpec(se.X, sc, st)
			if base.P != nil {
				et, _ := derefType(base.T)
				p, ft := x.specFieldPtr(base.P, et, se.Sel.Name)
				if ft == nil {
					o, _ := x.eng.override(et)
					for i, f := range o.Fields {
						if f == se.Sel.Name {
							return []*specLoc{{key: "F!" + p.OwnerKey + "!" + strings.Join(p.Path, "."), ref: p.Base, ghost: o.Sorts[i]}}
						}
					}
				}
				return []*specLoc{{ptr: p, t: ft}}
			}
		}
		panic(engErr("%s: modifies designator %q is not a location", c.Key, src))
	}
	// a pointer: "*p" was evaluated to the pointee; plain "p" means *p
	if se, ok := e.(*ast.StarExpr); ok {
		pv := x.evalSpec(se.X, sc, st)
		et, _ := derefType(pv.T)
		return []*specLoc{{ptr: pv.P, t: et}}
	}
	if se, ok := e.(*ast.SelectorExpr); ok {
		// pointer-typed field designates the field itself
		base := x.evalSpec(se.X, sc, st)
		if base.P != nil {
			et, _ := derefType(base.T)
			p, ft := x.specFieldPtr(base.P, et, se.Sel.Name)
			return []*specLoc{{ptr: p, t: ft}}
		}
	}
	et, _ := derefType(v.T)
	return []*specLoc{{ptr: v.P, t: et}}
}

var _ = constant.MakeBool

// ghostLoc: the heap map and index of ghost field `name` of the object v designates. An object
// embedded by value in a struct (v = &x.f) has its own ghost map per (struct type, field path).
func ghostLoc(name string, v *Value) (string, *Term) {
	if v.P != nil && !v.P.simple() && v.P.Idx == nil && len(v.P.EPath) == 0 {
		return "G!" + name + "@" + v.P.OwnerKey + "." + strings.Join(v.P.Path, "."), v.P.Base
	}
	return "G!" + name, v.term()
}
