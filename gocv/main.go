package main

import (
	"encoding/json"
	"flag"
	"fmt"
	"os"
	"path/filepath"
	"sort"
	"strings"
	"time"
)

var verifRoot = "/verif"

type KnownFinding struct {
	Property   string `json:"property"`
	Obligation string `json:"obligation"` // "<func key>::<obligation name>" (prefix match on name allowed with trailing *)
	What       string `json:"what"`
	Status     string `json:"status"` // open | fixed
	Commit     string `json:"commit,omitempty"`
	Replay     string `json:"replay,omitempty"`
}

type KnownFile struct {
	Findings []KnownFinding `json:"findings"`
	Fixed    []string       `json:"fixed"`
}

func loadKnown() *KnownFile {
	kf := &KnownFile{}
	data, err := os.ReadFile(filepath.Join(verifRoot, "known_findings.json"))
	if err == nil {
		_ = json.Unmarshal(data, kf)
	}
	return kf
}

func (kf *KnownFile) match(prop, full string) *KnownFinding {
	for i := range kf.Findings {
		f := &kf.Findings[i]
		if f.Property != prop || f.Status == "fixed" {
			continue
		}
		if f.Obligation == full {
			return f
		}
		if strings.HasSuffix(f.Obligation, "*") && strings.HasPrefix(full, strings.TrimSuffix(f.Obligation, "*")) {
			return f
		}
	}
	return nil
}

func main() {
	if len(os.Args) < 2 {
		fmt.Fprintln(os.Stderr, "usage: gocv check|lock|list|replay ...")
		os.Exit(2)
	}
	if v := os.Getenv("VERIF_ROOT"); v != "" {
		verifRoot = v
	}
	switch os.Args[1] {
	case "check":
		os.Exit(cmdCheck(os.Args[2:]))
	case "replay":
		os.Exit(cmdReplay(os.Args[2:]))
	case "list":
		db, err := loadContracts(filepath.Join(verifRoot, "contracts"))
		if err != nil {
			fmt.Fprintln(os.Stderr, err)
			os.Exit(2)
		}
		for _, k := range db.Order {
			c := db.C[k]
			fmt.Printf("%-70s props=%v extern=%v requires=%d ensures=%d\n", k, c.Props, c.Extern, len(c.Requires), len(c.Ensures))
		}
	default:
		fmt.Fprintln(os.Stderr, "unknown command", os.Args[1])
		os.Exit(2)
	}
}

type obRecord struct {
	Func    string  `json:"function"`
	Name    string  `json:"obligation"`
	Kind    string  `json:"kind"`
	Status  string  `json:"status"`
	Solver  string  `json:"solver,omitempty"`
	Seconds float64 `json:"seconds"`
	SMTSize int     `json:"smt_bytes,omitempty"`
	Pos     string  `json:"pos,omitempty"`
}

func cmdCheck(args []string) int {
	fs := flag.NewFlagSet("check", flag.ExitOnError)
	prop := fs.String("property", "", "property id (C01..C20)")
	tier := fs.String("tier", "quick", "quick|thorough")
	only := fs.String("only", "", "verify only functions whose key contains this substring")
	verbose := fs.Bool("v", false, "verbose")
	keep := fs.Bool("keep", false, "keep SMT files")
	repo := fs.String("repo", "/repo", "repository root")
	noEvidence := fs.Bool("no-evidence", false, "do not write the evidence file")
	writeLock := fs.Bool("write-lock", false, "record the obligation set of this run in obligations.lock.json")
	timeout := fs.Int("timeout", 0, "per-obligation solver timeout (s)")
	tags := fs.String("tags", "verif", "build tags")
	fs.Parse(args)
	if *prop == "" {
		fmt.Fprintln(os.Stderr, "need --property")
		return 2
	}
	if t := os.Getenv("VERIF_TIER"); t != "" && *tier == "" {
		*tier = t
	}
	start := time.Now()
	seed := 0
	fmt.Sscanf(os.Getenv("VERIF_SEED"), "%d", &seed)
	tmo := 20
	if *tier == "thorough" {
		tmo = 120
	}
	if *timeout > 0 {
		tmo = *timeout
	}
	db, err := loadContracts(filepath.Join(verifRoot, "contracts"))
	if err != nil {
		fmt.Fprintln(os.Stderr, "contracts:", err)
		return 2
	}
	pre, err := loadPrelude(filepath.Join(verifRoot, "prelude"))
	if err != nil {
		fmt.Fprintln(os.Stderr, "prelude:", err)
		return 2
	}
	eng := &Engine{repo: *repo, db: db, pre: pre, typeIDs: map[string]int64{}, tags: *tags}
	var keys []string
	for _, k := range db.Order {
		c := db.C[k]
		if c.Extern {
			continue
		}
		if !contains(c.Props, *prop) {
			continue
		}
		if c.Opts["tier"] == "thorough" && *tier != "thorough" {
			continue
		}
		if *only != "" && !strings.Contains(k, *only) {
			continue
		}
		keys = append(keys, k)
	}
	var lemmas []*Lemma
	for _, l := range db.Lemmas {
		if contains(l.Props, *prop) && (*only == "" || strings.Contains("lemma."+l.Name, *only)) {
			lemmas = append(lemmas, l)
		}
	}
	if len(keys) == 0 && len(lemmas) == 0 {
		fmt.Fprintf(os.Stderr, "no contracts serve property %s\n", *prop)
		return 2
	}
	// load packages: those of the functions under contract plus every in-module package
	// named by an inline-able callee is pulled in through NeedDeps.
	if err := eng.load(eng.patternsFor(keys)); err != nil {
		fmt.Println("ENGINE-ERROR load:", err)
		fmt.Printf("VIOLATION property=%s replay=%s no-failing-input-found\n", *prop, writeReplay(*prop, "load", "engine", err.Error(), nil))
		return 1
	}
	tmpdir, _ := os.MkdirTemp("/var/tmp", "gocv-")
	if !*keep {
		defer os.RemoveAll(tmpdir)
	}
	var results []*FuncResult
	for _, k := range keys {
		r := eng.verifyFunc(k)
		results = append(results, r)
	}
	for _, l := range lemmas {
		results = append(results, eng.verifyLemma(l))
	}
	var all []*Obligation
	for _, r := range results {
		all = append(all, r.Obls...)
	}
	dischargeAll(all, pre, tmpdir, tmo, 10)

	known := loadKnown()
	violations := 0
	knownHits := 0
	nObl, nProved := 0, 0
	var recs []obRecord
	var samples []any
	var failedNames []string
	assumedSet := map[string]bool{}
	inlinedSet := map[string]bool{}
	var notes []string
	var unverified []string
	seenLock := map[string]bool{}
	for _, r := range results {
		for _, a := range r.Assumed {
			assumedSet[a] = true
		}
		for _, a := range r.Inlined {
			inlinedSet[a] = true
		}
		notes = append(notes, r.Notes...)
		if r.Err != "" {
			unverified = append(unverified, r.Key+": "+r.Err)
			full := r.Key + "::engine"
			if kfnd := known.match(*prop, full); kfnd != nil {
				fmt.Printf("KNOWN-FINDING: property=%s %s\n", *prop, kfnd.What)
				knownHits++
			} else {
				violations++
				rp := writeReplay(*prop, r.Key, "engine", r.Err, nil)
				fmt.Printf("ENGINE-ERROR %s: %s\n", r.Key, r.Err)
				// the function could not be brought under its contract (restructured code, unknown
				// identifier, unsupported construct): undecided by the verifier, so ask the real code
				suffix := " no-failing-input-found"
				if runReplayHarness(eng, *prop, r, nil, rp) {
					suffix = ""
				}
				fmt.Printf("VIOLATION property=%s replay=%s%s\n", *prop, rp, suffix)
			}
		}
		for _, o := range r.Obls {
			nObl++
			full := r.Key + "::" + o.Name
			seenLock[full] = true
			rec := obRecord{Func: r.Key, Name: o.Name, Kind: o.Kind, Status: o.Status, Solver: o.Solver, Seconds: round3(o.Seconds), SMTSize: o.SMTSize, Pos: o.Pos}
			recs = append(recs, rec)
			if o.Status == "proved" {
				nProved++
				if len(samples) < 6 && o.Kind != "cover" && o.Solver != "simplifier" {
					samples = append(samples, map[string]any{"function": r.Key, "obligation": o.Name, "goal": trunc(o.Goal.SMT(), 300), "solver": o.Solver, "seconds": round3(o.Seconds), "smt_bytes": o.SMTSize})
				}
				if *verbose {
					fmt.Printf("  ok   %-60s %-8s %.2fs\n", full, o.Solver, o.Seconds)
				}
				continue
			}
			if kfnd := known.match(*prop, full); kfnd != nil {
				fmt.Printf("KNOWN-FINDING: property=%s %s [%s]\n", *prop, kfnd.What, full)
				knownHits++
				continue
			}
			violations++
			failedNames = append(failedNames, full)
			fmt.Printf("  FAIL %-60s status=%s %s\n", full, o.Status, firstLines(o.Output, 1))
			if *verbose {
				fmt.Println(trunc(o.Output, 3000))
			}
			rp, reproduced := replayObligation(eng, *prop, r, o)
			suffix := ""
			if !reproduced {
				suffix = " no-failing-input-found"
			}
			fmt.Printf("VIOLATION property=%s replay=%s%s\n", *prop, rp, suffix)
		}
	}
	// lock: obligations that used to exist must still be generated
	lock := loadLock()
	if *writeLock {
		var names []string
		for n := range seenLock {
			names = append(names, n)
		}
		sort.Strings(names)
		lock[*prop] = names
		saveLock(lock)
	} else if *only == "" {
		for _, n := range lock[*prop] {
			if !seenLock[n] {
				if strings.Contains(n, "::cover:") {
					continue
				}
				// obligation disappeared
				fn := strings.SplitN(n, "::", 2)[0]
				already := false
				for _, u := range unverified {
					if strings.HasPrefix(u, fn+":") {
						already = true
					}
				}
				if already {
					continue
				}
				if kfnd := known.match(*prop, n); kfnd != nil {
					continue
				}
				violations++
				rp := writeReplay(*prop, fn, n, "obligation recorded in obligations.lock.json is no longer generated (contract stopped binding)", nil)
				fmt.Printf("  MISSING %s\n", n)
				fmt.Printf("VIOLATION property=%s replay=%s no-failing-input-found\n", *prop, rp)
			}
		}
	}
	wall := time.Since(start).Seconds()
	if !*noEvidence {
		ev := map[string]any{
			"property_id": *prop,
			"tier":        *tier,
			"seed":        seed,
			"level":       "proof",
			"wall_s":      round3(wall),
			"violations":  violations,
		}
		var fnames []string
		for _, r := range results {
			fnames = append(fnames, r.Key)
		}
		var trusted []string
		for a := range assumedSet {
			c := db.C[a]
			verifiedHere := contains(keys, a)
			switch {
			case c != nil && c.Extern:
				trusted = append(trusted, "assumed contract (external/interface): "+a)
			case verifiedHere:
			case c != nil && len(c.Props) > 0 && !c.Trusted:
				trusted = append(trusted, "contract used here, discharged under property "+strings.Join(c.Props, ",")+": "+a)
			default:
				trusted = append(trusted, "assumed contract (not discharged): "+a)
			}
		}
		sort.Strings(trusted)
		trusted = append(trusted, "gocv VC generator (Go semantics encoding)", "SMT solvers z3 4.8.12 / z3 5.1.0 / cvc5 1.0.3 (any one unsat answer is believed)")
		var inl []string
		for k := range inlinedSet {
			inl = append(inl, k)
		}
		sort.Strings(inl)
		cov := map[string]any{
			"obligations":              nObl,
			"discharged":               nProved,
			"known_findings_matched":   knownHits,
			"checker_cmd":              fmt.Sprintf("/verif/bin/gocv check --property %s --tier %s", *prop, *tier),
			"trusted_base":             trusted,
			"functions_under_contract": fnames,
			"functions_inlined":        inl,
			"unverified_functions":     unverified,
			"failed_obligations":       failedNames,
			"by_backend":               solverWins,
			"solver_seconds":           roundMap(solverSeconds),
			"samples":                  samples,
			"obligation_records":       recs,
			"engine_notes":             dedupStrings(notes),
			"explanation":              propExplanation(*prop),
		}
		ev["coverage"] = cov
		ev["assumptions"] = propAssumptions(*prop, db, assumedSet)
		data, _ := json.MarshalIndent(ev, "", " ")
		os.MkdirAll(filepath.Join(verifRoot, "evidence"), 0o755)
		os.WriteFile(filepath.Join(verifRoot, "evidence", *prop+".json"), data, 0o644)
	}
	fmt.Printf("property=%s tier=%s functions=%d obligations=%d discharged=%d known=%d violations=%d wall=%.1fs\n",
		*prop, *tier, len(results), nObl, nProved, knownHits, violations, wall)
	if violations > 0 {
		return 1
	}
	return 0
}

func contains(xs []string, s string) bool {
	for _, x := range xs {
		if x == s {
			return true
		}
	}
	return false
}

func round3(f float64) float64 { return float64(int(f*1000+0.5)) / 1000 }

func roundMap(m map[string]float64) map[string]float64 {
	o := map[string]float64{}
	for k, v := range m {
		o[k] = round3(v)
	}
	return o
}

func dedupStrings(s []string) []string {
	sort.Strings(s)
	return dedup(s)
}

func loadLock() map[string][]string {
	m := map[string][]string{}
	data, err := os.ReadFile(filepath.Join(verifRoot, "obligations.lock.json"))
	if err == nil {
		_ = json.Unmarshal(data, &m)
	}
	return m
}

func saveLock(m map[string][]string) {
	data, _ := json.MarshalIndent(m, "", " ")
	os.WriteFile(filepath.Join(verifRoot, "obligations.lock.json"), data, 0o644)
}

// writeReplay records a failed obligation; returns the path of the replay file.
func writeReplay(prop, fn, obl, output string, extra map[string]any) string {
	dir := filepath.Join(verifRoot, "replays", prop)
	os.MkdirAll(dir, 0o755)
	name := sanitize(fn + "." + obl)
	if len(name) > 150 {
		name = name[:150]
	}
	p := filepath.Join(dir, name+".json")
	m := map[string]any{"property": prop, "function": fn, "obligation": obl, "solver_output": output}
	for k, v := range extra {
		m[k] = v
	}
	data, _ := json.MarshalIndent(m, "", " ")
	os.WriteFile(p, data, 0o644)
	return p
}

func propExplanation(prop string) string {
	data, err := os.ReadFile(filepath.Join(verifRoot, "contracts", "EXPLAIN.json"))
	if err != nil {
		return ""
	}
	m := map[string]string{}
	json.Unmarshal(data, &m)
	return m[prop]
}

func propAssumptions(prop string, db *ContractDB, assumed map[string]bool) []string {
	out := []string{
		"A-ENGINE: gocv's encoding of Go semantics is faithful (mitigated by the must-fail corpus of mutations and seeded changes and by replaying violations on the real code with the test batteries of replay/harness.json)",
		"A-SOLVER: an unsat answer of any one of z3 4.8.12, z3 5.1.0, cvc5 1.0.3 is believed",
		"A-TERM: termination is not proved",
		"A-HEAP: one element/field map per SMT sort (slices of different Go element types with the same sort may alias in the model; contracts add non-aliasing preconditions where needed); append writes in place when capacity allows, else reallocates",
		"A-FRAME: trusted and extern contracts without a modifies clause are assumed to modify nothing; a verified contract without the clause gives its callers no frame (the whole heap is havocked at the call)",
		"A-INT: machine integers are mathematical integers with exact wrap-around for unsigned types; signed overflow is checked only where the contract says `overflow on`",
	}
	data, err := os.ReadFile(filepath.Join(verifRoot, "contracts", "ASSUME.json"))
	if err == nil {
		m := map[string][]string{}
		json.Unmarshal(data, &m)
		out = append(out, m[prop]...)
	}
	var ext []string
	for a := range assumed {
		if c := db.C[a]; c != nil && c.Extern {
			ext = append(ext, a)
		}
	}
	sort.Strings(ext)
	if len(ext) > 0 {
		out = append(out, "assumed (unchecked) contracts of interface/library functions: "+strings.Join(ext, ", "))
	}
	return out
}
