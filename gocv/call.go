package main

// Calls: builtins, conversions, contracts at call sites, inlining.

import (
	"os"
	"regexp"
	"fmt"
	"go/ast"
	"go/token"
	"go/types"
	"strings"
)

const maxInlineDepth = 12

func (x *Exec) evalCall(call *ast.CallExpr, st *State) []*Value {
	info := x.fr().info
	if tv, ok := info.Types[call.Fun]; ok && tv.IsType() {
		v := x.eval(call.Args[0], st)
		return []*Value{x.convert(v, tv.Type, st, call)}
	}
	fun := ast.Unparen(call.Fun)
	switch f := fun.(type) {
	case *ast.Ident:
		switch o := info.Uses[f].(type) {
		case *types.Builtin:
			return x.evalBuiltin(o.Name(), call, st)
		case *types.Func:
			return x.callFunc(o, nil, call, st)
		case *types.Var:
			panic(engErr("call of function value %s not supported at %s", f.Name, x.pos(call)))
		}
	case *ast.SelectorExpr:
		if sel := info.Selections[f]; sel != nil {
			if sel.Kind() == types.MethodVal {
				fn := sel.Obj().(*types.Func)
				recv := x.evalReceiver(f, sel, fn, st)
				if _, isIface := types.Unalias(x.typeOf(f.X)).Underlying().(*types.Interface); isIface && x.c != nil && x.c.Opts["nil_iface_calls"] != "" && recv != nil {
					// calling a method on a nil interface value panics (checked on request: opt nil_iface_calls)
					c := Not(Eq(recv.term(), IntLit(0)))
					x.oblige(st, "nil", "ifacecall:"+f.Sel.Name, c, call)
					x.assume(st, c)
				}
				x.staticRecv = x.typeOf(f.X)
				return x.callFunc(fn, recv, call, st)
			}
			// call through a function-typed struct field: by contract keyed "<pkg>.<Type>.<field>"
			xt := x.typeOf(f.X)
			if et, isPtr := derefType(xt); isPtr {
				xt = et
			}
			if n, ok := types.Unalias(xt).(*types.Named); ok {
				key := qualName(n) + "." + f.Sel.Name
				if c := x.eng.db.C[key]; c != nil {
					sig := x.typeOf(f).Underlying().(*types.Signature)
					fn := types.NewFunc(token.NoPos, x.fr().pkg, f.Sel.Name, sig)
					var args []*Value
					for i, a := range call.Args {
						args = append(args, x.coerce(x.eval(a, st), sig.Params().At(i).Type()))
					}
					recv := x.eval(f.X, st)
					return x.applyContract(c, fn, recv, args, st, call)
				}
				panic(engErr("no contract for function-typed field %s (called at %s)", key, x.pos(call)))
			}
			panic(engErr("call through function-typed field %s not supported at %s", f.Sel.Name, x.pos(call)))
		}
		if fn, ok := info.Uses[f.Sel].(*types.Func); ok {
			if k := funcKey(fn); (k == "sort.SliceStable" || k == "sort.Slice") && len(call.Args) == 2 {
				if sl, isSlice := types.Unalias(x.typeOf(call.Args[0])).Underlying().(*types.Slice); isSlice {
					if _, isLit := call.Args[1].(*ast.FuncLit); isLit {
						// sorting with a comparison closure: the elements of the slice are permuted; modelled
						// as arbitrary new element values (a sound over-approximation for safety obligations;
						// the closure itself is assumed not to panic and to have no effects: A-SORT-CLOSURE)
						v := x.eval(call.Args[0], st)
						x.note("A-SORT-CLOSURE")
						if x.isStruct(sl.Elem()) {
							x.havocStructElems(st, SArr(v.Tm), sl.Elem(), nil, "")
						} else {
							(&specLoc{ptr: &Pointer{Base: SArr(v.Tm)}, t: types.NewArray(sl.Elem(), -1)}).havoc(x, st)
						}
						return nil
					}
				}
			}
			return x.callFunc(fn, nil, call, st)
		}
	case *ast.IndexExpr, *ast.IndexListExpr:
		// generic function instantiation f[T](...)
		var id *ast.Ident
		switch g := f.(type) {
		case *ast.IndexExpr:
			id, _ = g.X.(*ast.Ident)
			if se, ok := g.X.(*ast.SelectorExpr); ok {
				id = se.Sel
			}
		}
		if id != nil {
			if fn, ok := info.Uses[id].(*types.Func); ok {
				return x.callFunc(fn, nil, call, st)
			}
		}
	}
	panic(engErr("unsupported call form %T at %s", fun, x.pos(call)))
}

// evalReceiver evaluates the receiver expression of a method call and adapts it
// (address-of / dereference / embedded path) to what the method expects.
func (x *Exec) evalReceiver(f *ast.SelectorExpr, sel *types.Selection, fn *types.Func, st *State) *Value {
	sig := fn.Type().(*types.Signature)
	rt := sig.Recv().Type()
	_, wantPtr := derefType(rt)
	if _, isIface := types.Unalias(rt).Underlying().(*types.Interface); isIface {
		wantPtr = false
	}
	path := sel.Index()
	path = path[:len(path)-1]
	xt := x.typeOf(f.X)
	if len(path) > 0 {
		// promoted method through embedded fields
		var base *Pointer
		curT := xt
		if et, isPtr := derefType(xt); isPtr {
			v := x.eval(f.X, st)
			x.checkNonNil(st, v.P.Base, f)
			base, curT = v.P, et
		} else {
			base = x.addrOf(f.X, st)
		}
		if base != nil {
			p := x.extendPath(base, curT, path, st, f)
			// type at the end of the path
			ft := curT
			for _, i := range path {
				if et, isPtr := derefType(ft); isPtr {
					ft = et
				}
				ft = ft.Underlying().(*types.Struct).Field(i).Type()
			}
			if _, isPtr := derefType(ft); isPtr {
				v := x.load(st, p, ft)
				if wantPtr {
					return v
				}
				et, _ := derefType(ft)
				return x.load(st, v.P, et)
			}
			if wantPtr {
				return &Value{T: types.NewPointer(ft), P: p}
			}
			return x.load(st, p, ft)
		}
		v := x.fieldPath(x.eval(f.X, st), path, st, f)
		if wantPtr && v.P == nil {
			panic(engErr("cannot take address of embedded receiver at %s", x.pos(f)))
		}
		return v
	}
	if et, isPtr := derefType(xt); isPtr {
		v := x.eval(f.X, st)
		if wantPtr {
			return v
		}
		if _, isIface := types.Unalias(rt).Underlying().(*types.Interface); isIface {
			return v
		}
		x.checkNonNil(st, v.P.Base, f)
		return x.load(st, v.P, et)
	}
	if wantPtr {
		p := x.addrOf(f.X, st)
		if p == nil {
			panic(engErr("receiver %s is not addressable in the heap model at %s (boxing analysis missed it)", exprString(f.X), x.pos(f)))
		}
		return &Value{T: types.NewPointer(xt), P: p}
	}
	return x.eval(f.X, st)
}

var resultIdentRe = regexp.MustCompile(`\bresult\b`)

func exprString(e ast.Expr) string {
	switch e := e.(type) {
	case *ast.Ident:
		return e.Name
	case *ast.SelectorExpr:
		return exprString(e.X) + "." + e.Sel.Name
	case *ast.StarExpr:
		return "*" + exprString(e.X)
	case *ast.ParenExpr:
		return "(" + exprString(e.X) + ")"
	case *ast.IndexExpr:
		return exprString(e.X) + "[...]"
	case *ast.CallExpr:
		return exprString(e.Fun) + "(...)"
	}
	return fmt.Sprintf("%T", e)
}

func (x *Exec) evalArgs(fn *types.Func, call *ast.CallExpr, st *State) []*Value {
	sig := fn.Type().(*types.Signature)
	var args []*Value
	if len(call.Args) == 1 && sig.Params().Len() > 1 {
		args = x.evalMulti(call.Args[0], st)
	} else {
		for _, a := range call.Args {
			args = append(args, x.eval(a, st))
		}
	}
	np := sig.Params().Len()
	if sig.Variadic() {
		vt := sig.Params().At(np - 1).Type().(*types.Slice)
		if call.Ellipsis.IsValid() {
			// f(xs...) passes the slice as is
		} else {
			fixed := args[:np-1]
			rest := args[np-1:]
			es := x.sortOf(vt.Elem())
			arr := ConstArray(ArrS(IntS, es), zeroOfSort(es))
			for i, r := range rest {
				arr = Store(arr, IntLit(int64(i)), x.coerce(r, vt.Elem()).term())
			}
			var sl *Term
			if len(rest) == 0 {
				sl = MkSlice(IntLit(0), IntLit(0), IntLit(0))
			} else {
				ref := x.alloc(st)
				k, ks := x.elemKey(es, vt.Elem())
				st.hset(k, x.vc.define("h", Store(st.hget(k, ks), ref, arr)), ref)
				sl = MkSlice(ref, IntLit(0), IntLit(int64(len(rest))))
			}
			args = append(append([]*Value{}, fixed...), &Value{T: vt, Tm: sl})
		}
	}
	for i := range args {
		if i < np {
			args[i] = x.coerce(args[i], sig.Params().At(i).Type())
		}
	}
	return args
}

func (x *Exec) callFunc(fn *types.Func, recv *Value, call *ast.CallExpr, st *State) []*Value {
	fn = fn.Origin()
	key := funcKey(fn)
	// generic functions: use the instantiated signature of this call site
	if gs, ok := fn.Type().(*types.Signature); ok && gs.TypeParams().Len() > 0 {
		if is, ok := x.typeOf(call.Fun).(*types.Signature); ok && is.TypeParams().Len() == 0 {
			fn = types.NewFunc(fn.Pos(), fn.Pkg(), fn.Name(), is)
		}
	}
	// interface methods declared in an embedded interface (e.g. encoding.BinaryUnmarshaler in
	// kyber.Point): prefer a contract keyed by the static receiver type
	if sr := x.staticRecv; sr != nil && recv != nil {
		x.staticRecv = nil
		if et, isPtr := derefType(sr); isPtr {
			sr = et
		}
		if n, ok := types.Unalias(sr).(*types.Named); ok {
			alt := qualName(n) + "." + fn.Name()
			if alt != key {
				if _, has := x.eng.db.C[alt]; has {
					key = alt
				}
			}
		}
	}
	x.staticRecv = nil
	// contracts specialised on the static (named, non-interface) type of an argument that is
	// passed to an interface parameter: key "pkg.Func@argpkg.ArgType"
	if sig := fn.Type().(*types.Signature); len(call.Args) == sig.Params().Len() && (!sig.Variadic() || !call.Ellipsis.IsValid()) {
		for i, a := range call.Args {
			pt := sig.Params().At(i).Type()
			if sig.Variadic() && i == sig.Params().Len()-1 {
				pt = pt.(*types.Slice).Elem() // exactly one value for the variadic parameter
			}
			if _, isIface := types.Unalias(pt).Underlying().(*types.Interface); !isIface {
				continue
			}
			at := x.typeOf(a)
			if pt, isPtr := types.Unalias(at).(*types.Pointer); isPtr {
				at = pt.Elem() // pointer to a named type specialises on the pointee
			}
			sliceOf := ""
			if sl, isSl := types.Unalias(at).(*types.Slice); isSl {
				// []Named specialises as "@[]pkg.Named"
				at = sl.Elem()
				sliceOf = "[]"
			}
			if n, ok := types.Unalias(at).(*types.Named); ok {
				skey := key + "@" + sliceOf + qualName(n)
				if c := x.eng.db.C[skey]; c != nil {
					var args []*Value
					for j, b := range call.Args {
						v := x.eval(b, st)
						if j != i {
							v = x.coerce(v, sig.Params().At(j).Type())
						}
						args = append(args, v)
					}
					return x.applyContract(c, fn, recv, args, st, call)
				}
			}
		}
	}
	args := x.evalArgs(fn, call, st)
	if st.guard == False {
		return x.dummyResults(fn, st)
	}
	c := x.eng.db.C[key]
	if x.c != nil && x.c.Mode != "" {
		if cv := x.eng.db.C[key+"@"+x.c.Mode]; cv != nil {
			c = cv
		}
	}
	if x.c != nil {
		for _, v := range strings.Fields(x.c.Opts["variants"]) {
			if cv := x.eng.db.C[key+"@"+v]; cv != nil {
				c = cv
			}
		}
	}
	fi := x.eng.funcs[key]
	if c != nil && !c.Inline {
		return x.applyContract(c, fn, recv, args, st, call)
	}
	if fi != nil {
		if len(x.frames) > maxInlineDepth {
			panic(engErr("inline depth exceeded at %s (callee %s)", x.pos(call), key))
		}
		for _, f := range x.frames {
			if f.fi == fi {
				panic(engErr("recursive call of %s needs a contract", key))
			}
		}
		return x.inline(fi, recv, args, st, call)
	}
	panic(engErr("no contract for %s (called at %s)", key, x.pos(call)))
}

func (x *Exec) dummyResults(fn *types.Func, st *State) []*Value {
	sig := fn.Type().(*types.Signature)
	var out []*Value
	for i := 0; i < sig.Results().Len(); i++ {
		out = append(out, x.zero(sig.Results().At(i).Type()))
	}
	return out
}

// ---------- inlining ----------

func (x *Exec) newFrame(fi *FuncInfo) *frame {
	f := &frame{fi: fi, info: fi.Pkg.TypesInfo, pkg: fi.Pkg.Types, boxed: map[types.Object]bool{}, boxRef: map[types.Object]*Term{}, loopOrd: map[ast.Node]int{}}
	f.contract = x.eng.db.C[fi.Key]
	if len(x.frames) == 0 && x.c != nil {
		f.contract = x.c // the contract under verification (possibly a "Func@variant")
	}
	sig := fi.Obj.Type().(*types.Signature)
	for i := 0; i < sig.Results().Len(); i++ {
		f.results = append(f.results, sig.Results().At(i))
	}
	ord := 0
	ast.Inspect(fi.Decl.Body, func(n ast.Node) bool {
		switch n.(type) {
		case *ast.ForStmt, *ast.RangeStmt:
			ord++
			f.loopOrd[n] = ord
		case *ast.FuncLit:
			return false
		}
		return true
	})
	computeBoxed(fi, f)
	return f
}

func rootVar(info *types.Info, e ast.Expr) *types.Var {
	for {
		switch t := e.(type) {
		case *ast.ParenExpr:
			e = t.X
		case *ast.SelectorExpr:
			if sel := info.Selections[t]; sel != nil && sel.Kind() == types.FieldVal {
				if _, isPtr := derefType(info.TypeOf(t.X)); isPtr {
					return nil
				}
				e = t.X
				continue
			}
			return nil
		case *ast.IndexExpr:
			if _, ok := types.Unalias(info.TypeOf(t.X)).Underlying().(*types.Array); ok {
				e = t.X
				continue
			}
			return nil
		case *ast.Ident:
			v, _ := info.Uses[t].(*types.Var)
			if v == nil {
				v, _ = info.Defs[t].(*types.Var)
			}
			if v != nil && v.Parent() != nil && v.Pkg() != nil && v.Parent() == v.Pkg().Scope() {
				return nil
			}
			return v
		default:
			return nil
		}
	}
}

func computeBoxed(fi *FuncInfo, f *frame) {
	info := f.info
	ast.Inspect(fi.Decl.Body, func(n ast.Node) bool {
		switch t := n.(type) {
		case *ast.UnaryExpr:
			if t.Op == token.AND {
				if v := rootVar(info, t.X); v != nil {
					f.boxed[v] = true
				}
			}
		case *ast.SliceExpr:
			if _, ok := types.Unalias(info.TypeOf(t.X)).Underlying().(*types.Array); ok {
				if v := rootVar(info, t.X); v != nil {
					f.boxed[v] = true
				}
			}
		case *ast.CallExpr:
			if se, ok := ast.Unparen(t.Fun).(*ast.SelectorExpr); ok {
				if sel := info.Selections[se]; sel != nil && sel.Kind() == types.MethodVal {
					fn := sel.Obj().(*types.Func)
					rt := fn.Type().(*types.Signature).Recv().Type()
					if _, wantPtr := derefType(rt); wantPtr {
						if _, isIface := rt.Underlying().(*types.Interface); !isIface {
							if v := rootVar(info, se.X); v != nil {
								if _, isPtr := derefType(v.Type()); !isPtr || se.X != ast.Expr(nil) {
									// only box when the root itself is the (non-pointer) receiver container
									if _, rootIsPtr := derefType(v.Type()); !rootIsPtr {
										f.boxed[v] = true
									}
								}
							}
						}
					}
				}
			}
		case *ast.FuncLit:
			return false
		}
		return true
	})
}

func (x *Exec) bindParam(v *types.Var, val *Value, st *State) {
	if v == nil || v.Name() == "_" || v.Name() == "" {
		return
	}
	val = x.coerce(val, v.Type())
	if x.fr().boxed[v] {
		ref := x.alloc(st)
		st.env[v] = &Value{T: types.NewPointer(v.Type()), P: &Pointer{Base: ref}}
		x.store(st, &Pointer{Base: ref}, v.Type(), val)
		return
	}
	st.env[v] = val
}

func (x *Exec) inline(fi *FuncInfo, recv *Value, args []*Value, st *State, call ast.Node) []*Value {
	f := x.newFrame(fi)
	f.depth = len(x.frames)
	x.inlined[fi.Key] = true
	x.frames = append(x.frames, f)
	defer func() { x.frames = x.frames[:len(x.frames)-1] }()
	sig := fi.Obj.Type().(*types.Signature)
	if sig.Recv() != nil {
		x.bindParam(sig.Recv(), recv, st)
	}
	for i := 0; i < sig.Params().Len(); i++ {
		x.bindParam(sig.Params().At(i), args[i], st)
	}
	for _, r := range f.results {
		if r.Name() != "" && r.Name() != "_" {
			x.bindParam(r, x.zero(r.Type()), st)
		}
	}
	end := x.execBlock(fi.Decl.Body.List, st.clone())
	if end != nil {
		if len(f.results) > 0 {
			// falling off the end with named results
			var vals []*Value
			for _, r := range f.results {
				vals = append(vals, x.readVar(r, end))
			}
			f.returns = append(f.returns, end)
			f.retVals = append(f.retVals, vals)
		} else {
			f.returns = append(f.returns, end)
			f.retVals = append(f.retVals, nil)
		}
	}
	if len(f.returns) == 0 {
		st.guard = False
		return x.dummyResults(fi.Obj, st)
	}
	// merge the return states, carrying result values in temporary variables
	tmp := make([]*types.Var, len(f.results))
	for i, r := range f.results {
		tmp[i] = types.NewVar(token.NoPos, f.pkg, fmt.Sprintf("ret%d", i), r.Type())
	}
	for k, rs := range f.returns {
		for i := range f.results {
			rs.env[tmp[i]] = f.retVals[k][i]
		}
	}
	m := x.mergeAll(f.returns)
	var out []*Value
	for i := range f.results {
		out = append(out, m.env[tmp[i]])
		delete(m.env, tmp[i])
	}
	wl := st.wlog
	*st = *m
	st.wlog = wl
	return out
}

// ---------- contracts at call sites ----------

func (x *Exec) applyContract(c *Contract, fn *types.Func, recv *Value, args []*Value, st *State, call ast.Node) []*Value {
	x.used[c.Key] = true
	if !c.HasMod && os.Getenv("GOCV_FRAMEAUDIT") != "" {
		fmt.Fprintf(os.Stderr, "FRAMEAUDIT callee=%s trusted=%v extern=%v caller=%s\n", c.Key, c.Trusted, c.Extern, x.fr().fi.Key)
	}
	sig := fn.Type().(*types.Signature)
	sc := &SpecScope{names: map[string]*Value{}, pkg: fn.Pkg()}
	if recv != nil {
		sc.names["recv"] = recv
		if sig.Recv() != nil && sig.Recv().Name() != "" {
			sc.names[sig.Recv().Name()] = recv
		}
	}
	for i := 0; i < sig.Params().Len(); i++ {
		name := sig.Params().At(i).Name()
		if i < len(c.Params) {
			sc.names[c.Params[i]] = args[i]
		}
		if name != "" && name != "_" {
			if _, dup := sc.names[name]; !dup {
				sc.names[name] = args[i]
			}
		}
		sc.names[fmt.Sprintf("arg%d", i)] = args[i]
	}
	pre := st.clone()
	sc.old = pre
	for i, r := range c.Requires {
		t := x.evalSpecBool(r, sc, st)
		x.oblige(st, "requires", shortKey(c.Key)+"/"+clauseName(r, i), t, call)
		x.assume(st, t)
	}
	// results declared fresh are allocated from the caller's frontier, so that their
	// freshness is syntactic (needed for loop frames)
	freshRes := false
	var freshGuard ast.Expr // non-nil: result is fresh only under this condition (G ==> ... fresh(result) ...)
	for _, e := range c.Ensures {
		if strings.Contains(e.Src, "fresh(result)") {
			freshRes = true
			if ce, ok := parseSpec(e).(*ast.CallExpr); ok {
				if id, ok := ce.Fun.(*ast.Ident); ok && id.Name == "implies__" && len(ce.Args) == 2 && !resultIdentRe.MatchString(exprString(ce.Args[0])) && strings.Contains(exprString(ce.Args[1]), "fresh(result)") {
					if freshGuard == nil {
						freshGuard = ce.Args[0]
					}
					continue
				}
			}
			freshGuard = nil
			break // an unconditional occurrence: the result is always a fresh object
		}
	}
	var freshRef *Term
	if freshRes && sig.Results().Len() > 0 && isRefLike(sig.Results().At(0).Type()) {
		freshRef = x.alloc(st)
	}
	if !c.NoAlloc {
		x.bumpAlloc(st)
	}
	// frame. A location L with a postcondition of the shape "L == E" (E over old values) is
	// assigned E directly instead of being havocked and constrained: same meaning, smaller terms.
	direct := map[string]*Value{}
	for _, m := range c.Modifies {
		for _, e := range c.Ensures {
			if e.Local || e.Assumed {
				continue
			}
			be, ok := parseSpec(e).(*ast.BinaryExpr)
			if !ok || be.Op != token.EQL || specString(be.X) != strings.ReplaceAll(m, " ", "") {
				continue
			}
			if v, ok := x.tryEvalSpecVal(be.Y, sc, st); ok {
				direct[m] = v
			}
			break
		}
	}
	if !c.HasMod && !c.Trusted && !c.Extern {
		// A verified contract without a modifies clause has no checked frame: its callers may assume
		// nothing about the heap after the call. (Trusted and extern contracts without the clause are
		// assumed to modify nothing - part of what is trusted about them.)
		(&specLoc{all: true}).havoc(x, st)
	}
	for _, m := range c.Modifies {
		if v, ok := direct[m]; ok {
			locs := x.specLocs(m, sc, st, c)
			if len(locs) == 1 && locs[0].ptr != nil && v.Tm != nil {
				x.store(st, locs[0].ptr, locs[0].t, &Value{T: locs[0].t, Tm: x.vc.define("r", v.Tm)})
				continue
			}
		}
		x.havocSpecLoc(m, sc, st, c)
	}
	// a postcondition "result == <parameter>" binds the result to that argument directly
	var aliasRes *Value
	var findAlias func(e ast.Expr)
	findAlias = func(e ast.Expr) {
		for {
			p, ok := e.(*ast.ParenExpr)
			if !ok {
				break
			}
			e = p.X
		}
		be, ok := e.(*ast.BinaryExpr)
		if !ok {
			return
		}
		if be.Op == token.LAND {
			findAlias(be.X)
			findAlias(be.Y)
			return
		}
		if be.Op == token.EQL {
			if l, ok := be.X.(*ast.Ident); ok && l.Name == "result" {
				if r, ok := be.Y.(*ast.Ident); ok {
					if av, ok := sc.names[r.Name]; ok && (av.P != nil || av.Tm != nil) {
						aliasRes = av
					}
				}
			}
		}
	}
	for _, e := range c.Ensures {
		findAlias(parseSpec(e))
	}
	// results (the first one last when its freshness is conditional on the others)
	var results []*Value
	order := []int{}
	for i := 0; i < sig.Results().Len(); i++ {
		order = append(order, i)
	}
	if freshGuard != nil && freshRef != nil && len(order) > 1 {
		order = append(order[1:], 0)
	}
	results = make([]*Value, sig.Results().Len())
	for _, i := range order {
		rt := sig.Results().At(i).Type()
		var v *Value
		if i == 0 && aliasRes != nil {
			v = x.coerce(aliasRes, rt)
		} else if i == 0 && freshRef != nil {
			ref := freshRef
			if freshGuard != nil {
				// fresh only when the guard holds; otherwise an arbitrary (possibly nil) value
				g := x.evalSpec(freshGuard, sc, st)
				other := x.symbolic(st, rt, "ret."+fn.Name())
				ref = x.vc.define("res", Ite(g.Tm, freshRef, other.term()))
			}
			if isPointer(rt) {
				v = &Value{T: rt, P: &Pointer{Base: ref}}
			} else {
				v = &Value{T: rt, Tm: ref}
			}
		} else {
			v = x.symbolic(st, rt, "ret."+fn.Name())
		}
		results[i] = v
		name := "result"
		if i > 0 {
			name = fmt.Sprintf("result%d", i)
		}
		sc.names[name] = v
		if rn := sig.Results().At(i).Name(); rn != "" && rn != "_" {
			if _, dup := sc.names[rn]; !dup {
				sc.names[rn] = v
			}
		}
	}
	sc.results = results
	crossMode := (c.Mode == "bv") != x.bv
	for _, e := range c.Ensures {
		if e.Local {
			continue
		}
		if crossMode {
			// a clause written for the other integer encoding may not be expressible here: skip it (weaker assumption)
			t, ok := x.tryEvalSpecBool(e, sc, st)
			if !ok {
				x.note("postcondition of " + c.Key + " not usable across integer modes: " + trunc(e.Src, 60))
				continue
			}
			x.assume(st, t)
			continue
		}
		if aliasRes != nil && aliasRes.P != nil && !aliasRes.P.simple() {
			if be, ok := parseSpec(e).(*ast.BinaryExpr); ok && be.Op == token.EQL {
				if l, ok := be.X.(*ast.Ident); ok && l.Name == "result" {
					continue
				}
			}
		}
		x.assume(st, x.evalSpecBool(e, sc, st))
	}
	return results
}

// havocSpecLoc havocs the location(s) named by a modifies clause.
func (x *Exec) havocSpecLoc(src string, sc *SpecScope, st *State, c *Contract) {
	for _, loc := range x.specLocs(src, sc, st, c) {
		loc.havoc(x, st)
	}
}

type specLoc struct {
	ptr   *Pointer
	t     types.Type
	key   string // ghost / map keys
	ref   *Term
	mapT  *types.Map
	ghost *Sort
	all   bool
	whole bool
}

func (l *specLoc) havoc(x *Exec, st *State) {
	switch {
	case l.all:
		for k, srt := range heapSorts {
			nm := x.fresh("hv."+k, srt)
			st.hset(k, nm, nil)
		}
	case l.ghost != nil && l.whole:
		st.hset(l.key, x.fresh("hv."+l.key, ArrS(IntS, l.ghost)), nil)
	case l.ghost != nil:
		m := st.hget(l.key, ArrS(IntS, l.ghost))
		st.hset(l.key, x.vc.define("h", Store(m, l.ref, x.fresh("gv", l.ghost))), l.ref)
	case l.mapT != nil:
		dk, ds := x.mapDomKey(l.mapT)
		vk, vs := x.mapValKey(l.mapT)
		st.hset(dk, x.vc.define("h", Store(st.hget(dk, ds), l.ref, x.fresh("md", ds.Rng))), l.ref)
		st.hset(vk, x.vc.define("h", Store(st.hget(vk, vs), l.ref, x.fresh("mv", vs.Rng))), l.ref)
		ln := x.fresh("ml", IntS)
		x.vc.assume(Ge(ln, IntLit(0)))
		st.hset("Ml", x.vc.define("h", Store(st.hget("Ml", ArrS(IntS, IntS)), l.ref, ln)), l.ref)
	default:
		x.store(st, l.ptr, l.t, x.symbolic(st, l.t, "hv"))
	}
}

// keysAndRefs lists the (heap key, reference) pairs a location covers (for frame checks).
func (l *specLoc) keysAndRefs(x *Exec) [][2]any {
	var out [][2]any
	switch {
	case l.all:
		out = append(out, [2]any{"*", nil})
	case l.ghost != nil && l.whole:
		out = append(out, [2]any{"*" + l.key, nil})
	case l.ghost != nil:
		out = append(out, [2]any{l.key, l.ref})
	case l.mapT != nil:
		dk, _ := x.mapDomKey(l.mapT)
		vk, _ := x.mapValKey(l.mapT)
		out = append(out, [2]any{dk, l.ref}, [2]any{vk, l.ref}, [2]any{"Ml", l.ref})
	default:
		var rec func(p *Pointer, t types.Type)
		rec = func(p *Pointer, t types.Type) {
			if x.isStruct(t) {
				fs, key := x.fieldsOf(t)
				for _, f := range fs {
					fp := &Pointer{Base: p.Base, OwnerKey: p.OwnerKey}
					if len(p.Path) == 0 {
						fp.OwnerKey = key
					}
					fp.Path = append(append([]string{}, p.Path...), f.Name)
					if f.S != nil {
						out = append(out, [2]any{"F!" + fp.OwnerKey + "!" + strings.Join(fp.Path, "."), p.Base})
					} else {
						rec(fp, f.T)
					}
				}
				return
			}
			srt := x.sortOf(t)
			k, _ := x.locKey(p, srt, t)
			out = append(out, [2]any{k, p.Base})
		}
		rec(l.ptr, l.t)
	}
	return out
}

// ---------- builtins ----------

func (x *Exec) evalBuiltin(name string, call *ast.CallExpr, st *State) []*Value {
	info := x.fr().info
	one := func(v *Value) []*Value { return []*Value{v} }
	switch name {
	case "len", "cap":
		a := call.Args[0]
		at := types.Unalias(info.TypeOf(a)).Underlying()
		switch u := at.(type) {
		case *types.Slice:
			v := x.eval(a, st)
			if name == "cap" {
				return one(&Value{T: types.Typ[types.Int], Tm: SCap(v.Tm)})
			}
			return one(&Value{T: types.Typ[types.Int], Tm: SLen(v.Tm)})
		case *types.Array:
			return one(&Value{T: types.Typ[types.Int], Tm: IntLit(u.Len())})
		case *types.Pointer:
			return one(&Value{T: types.Typ[types.Int], Tm: IntLit(u.Elem().Underlying().(*types.Array).Len())})
		case *types.Map:
			v := x.eval(a, st)
			return one(&Value{T: types.Typ[types.Int], Tm: x.mapLen(st, v.term())})
		case *types.Basic:
			v := x.eval(a, st)
			ln := App("strlen", IntS, v.Tm)
			x.vc.assume(Ge(ln, IntLit(0)))
			return one(&Value{T: types.Typ[types.Int], Tm: ln})
		}
	case "make":
		t := info.TypeOf(call.Args[0])
		switch u := types.Unalias(t).Underlying().(type) {
		case *types.Slice:
			n := x.toInt(x.eval(call.Args[1], st))
			x.oblige(st, "make", "len", Ge(n, IntLit(0)), call)
			cp := n
			if len(call.Args) > 2 {
				cp = x.toInt(x.eval(call.Args[2], st))
				x.oblige(st, "make", "cap", Ge(cp, n), call)
			}
			es := x.sortOf(u.Elem())
			ref := x.alloc(st)
			k, ks := x.elemKey(es, u.Elem())
			st.hset(k, x.vc.define("h", Store(st.hget(k, ks), ref, ConstArray(ArrS(IntS, es), zeroOfSort(es)))), ref)
			return one(&Value{T: t, Tm: MkSliceC(ref, IntLit(0), n, cp)})
		case *types.Map:
			return one(&Value{T: t, Tm: x.newMap(st, u)})
		}
	case "new":
		t := info.TypeOf(call.Args[0])
		ref := x.alloc(st)
		x.store(st, &Pointer{Base: ref}, t, x.zero(t))
		return one(&Value{T: types.NewPointer(t), P: &Pointer{Base: ref}})
	case "append":
		return one(x.evalAppend(call, st))
	case "copy":
		dst := x.eval(call.Args[0], st)
		src := x.eval(call.Args[1], st)
		return one(x.copySlices(st, dst, src, info.TypeOf(call.Args[0])))
	case "delete":
		mt := types.Unalias(info.TypeOf(call.Args[0])).Underlying().(*types.Map)
		m := x.eval(call.Args[0], st)
		k := x.coerce(x.eval(call.Args[1], st), mt.Key())
		x.mapDelete(st, mt, m.term(), k.term())
		return nil
	case "min", "max":
		v := x.eval(call.Args[0], st)
		for _, a := range call.Args[1:] {
			w := x.eval(a, st)
			op := token.LSS
			if name == "max" {
				op = token.GTR
			}
			c := x.binop(op, v, w, types.Typ[types.Bool], st, call).Tm
			v = x.mergeVal(c, v, x.coerce(w, v.T))
		}
		return one(v)
	case "panic":
		x.execPanic(call, st)
		st.guard = False
		return nil
	}
	panic(engErr("unsupported builtin %s at %s", name, x.pos(call)))
}

// copySlices models copy(dst, src): element-wise for the first min(len) elements,
// expressed with a fresh array constrained by a quantified fact.
func (x *Exec) copySlices(st *State, dst, src *Value, dt types.Type) *Value {
	st0 := types.Unalias(dt).Underlying().(*types.Slice)
	es := x.sortOf(st0.Elem())
	var srcArr, srcOff, srcLen *Term
	if src.Tm.S == StrS {
		srcArr, srcOff, srcLen = App("strbytes", ArrS(IntS, IntS), src.Tm), IntLit(0), App("strlen", IntS, src.Tm)
	} else {
		srcArr, srcOff, srcLen = x.sliceContents(st, src.Tm, es, st0.Elem()), SOff(src.Tm), SLen(src.Tm)
	}
	n := Ite(Lt(SLen(dst.Tm), srcLen), SLen(dst.Tm), srcLen)
	n = x.vc.define("ncopy", n)
	k, ks := x.elemKey(es, st0.Elem())
	m := st.hget(k, ks)
	oldD := Select(m, SArr(dst.Tm))
	// constant-size copies are expanded exactly
	if n.IsLit() && n.Int.Int64() <= 128 {
		na := oldD
		for i := int64(0); i < n.Int.Int64(); i++ {
			na = Store(na, Add(SOff(dst.Tm), IntLit(i)), Select(srcArr, Add(srcOff, IntLit(i))))
		}
		st.hset(k, x.vc.define("h", Store(m, SArr(dst.Tm), x.vc.define("cp", na))), SArr(dst.Tm))
		if SArr(dst.Tm).Op == "subref" {
			x.syncSubRef(st, SArr(dst.Tm), k, ks)
		}
		return &Value{T: types.Typ[types.Int], Tm: n}
	}
	na := x.fresh("cp", ArrS(IntS, es))
	j := Var("j!", IntS)
	inWin := And(Le(SOff(dst.Tm), j), Lt(j, Add(SOff(dst.Tm), n)))
	sel := mk("select", "", es, nil, na, j)
	body := mk("=", "", BoolS, nil, sel, Ite(inWin,
		mk("select", "", es, nil, srcArr, Add(Sub(j, SOff(dst.Tm)), srcOff)),
		mk("select", "", es, nil, oldD, j)))
	x.vc.assume(Forall([]*Term{j}, body, sel))
	st.hset(k, x.vc.define("h", Store(m, SArr(dst.Tm), na)), SArr(dst.Tm))
	if SArr(dst.Tm).Op == "subref" {
		x.syncSubRef(st, SArr(dst.Tm), k, ks)
	}
	return &Value{T: types.Typ[types.Int], Tm: n}
}

// evalAppend follows Go's semantics: when the capacity suffices the new elements are
// written into the backing array of the first argument (aliasing!) and the result shares it;
// otherwise a fresh array holding a copy is allocated (its capacity is unknown, >= the new length).
func (x *Exec) evalAppend(call *ast.CallExpr, st *State) *Value {
	info := x.fr().info
	t := info.TypeOf(call.Args[0])
	sl := types.Unalias(t).Underlying().(*types.Slice)
	if x.isStruct(sl.Elem()) {
		return x.evalAppendStruct(call, st, t, sl)
	}
	es := x.sortOf(sl.Elem())
	base := x.coerce(x.eval(call.Args[0], st), t)
	k, ks := x.elemKey(es, sl.Elem())
	ln := SLen(base.Tm)
	// the appended elements as a function idx -> value
	var addLen *Term
	var elemAt func(i *Term) *Term // i relative to the first appended element
	var fixed []*Term
	if call.Ellipsis.IsValid() {
		src := x.eval(call.Args[1], st)
		var srcArr, srcOff *Term
		if src.Tm.S == StrS {
			srcArr, srcOff, addLen = App("strbytes", ArrS(IntS, IntS), src.Tm), IntLit(0), App("strlen", IntS, src.Tm)
			x.vc.assume(Ge(addLen, IntLit(0)))
		} else {
			srcArr, srcOff, addLen = x.sliceContents(st, src.Tm, es, sl.Elem()), SOff(src.Tm), SLen(src.Tm)
		}
		srcArr = x.vc.define("appsrc", srcArr)
		elemAt = func(i *Term) *Term { return mk("select", "", es, nil, srcArr, Add(srcOff, i)) }
	} else {
		for _, a := range call.Args[1:] {
			fixed = append(fixed, x.coerce(x.eval(a, st), sl.Elem()).term())
		}
		addLen = IntLit(int64(len(fixed)))
	}
	newLen := Add(ln, addLen)
	fits := x.nameBool(And(Le(newLen, SCap(base.Tm)), Not(Eq(SArr(base.Tm), IntLit(0)))))
	m := st.hget(k, ks)
	oldArr := Select(m, SArr(base.Tm))
	// in-place variant
	var inPlace *Term
	if fixed != nil {
		inPlace = oldArr
		for i, v := range fixed {
			inPlace = Store(inPlace, Add(Add(SOff(base.Tm), ln), IntLit(int64(i))), v)
		}
	} else {
		inPlace = x.fresh("appinp", ArrS(IntS, es))
		j := Var("j!", IntS)
		lo := Add(SOff(base.Tm), ln)
		sel := mk("select", "", es, nil, inPlace, j)
		x.vc.assume(Forall([]*Term{j}, mk("=", "", BoolS, nil, sel,
			Ite(And(Le(lo, j), Lt(j, Add(lo, addLen))), elemAt(Sub(j, lo)), mk("select", "", es, nil, oldArr, j))), sel))
	}
	// reallocating variant
	ref := x.alloc(st)
	na := x.fresh("app", ArrS(IntS, es))
	j := Var("j!", IntS)
	sel := mk("select", "", es, nil, na, j)
	x.vc.assume(Forall([]*Term{j}, Implies(And(Le(IntLit(0), j), Lt(j, ln)),
		mk("=", "", BoolS, nil, sel, mk("select", "", es, nil, oldArr, Add(SOff(base.Tm), j)))), sel))
	if fixed != nil {
		for i, v := range fixed {
			x.vc.assume(Eq(Select(na, Add(ln, IntLit(int64(i)))), v))
		}
	} else {
		x.vc.assume(Forall([]*Term{j}, Implies(And(Le(ln, j), Lt(j, newLen)),
			mk("=", "", BoolS, nil, sel, elemAt(Sub(j, ln)))), sel))
	}
	newCap := x.fresh("appcap", IntS)
	x.vc.assume(Ge(newCap, newLen))
	if fits == True {
		st.hset(k, x.vc.define("h", Store(m, SArr(base.Tm), x.vc.define("appa", inPlace))), SArr(base.Tm))
		return &Value{T: t, Tm: MkSliceC(SArr(base.Tm), SOff(base.Tm), newLen, SCap(base.Tm))}
	}
	if fits == False {
		st.hset(k, x.vc.define("h", Store(m, ref, na)), ref)
		return &Value{T: t, Tm: MkSliceC(ref, IntLit(0), newLen, newCap)}
	}
	hIn := Store(m, SArr(base.Tm), x.vc.define("appa", inPlace))
	hRe := Store(m, ref, na)
	st.hset(k, x.vc.define("h", Ite(fits, hIn, hRe)), nil)
	// record the precise write set for loop frames: the old array (maybe) and the fresh one
	for w := st.wlog; w != nil; w = w.parent {
		w.heap = w.heap[:len(w.heap)-1]
		w.heap = append(w.heap, heapWrite{k, SArr(base.Tm), And(st.guard, fits)}, heapWrite{k, ref, And(st.guard, Not(fits))})
	}
	res := MkSliceC(Ite(fits, SArr(base.Tm), ref), Ite(fits, SOff(base.Tm), IntLit(0)), newLen, Ite(fits, SCap(base.Tm), newCap))
	return &Value{T: t, Tm: x.vc.define("appres", res)}
}

func (x *Exec) tryEvalSpecBool(c Clause, sc *SpecScope, st *State) (t *Term, ok bool) {
	defer func() {
		if r := recover(); r != nil {
			t, ok = nil, false
		}
	}()
	return x.evalSpecBool(c, sc, st), true
}

func (x *Exec) tryEvalSpecVal(e ast.Expr, sc *SpecScope, st *State) (v *Value, ok bool) {
	defer func() {
		if r := recover(); r != nil {
			v, ok = nil, false
		}
	}()
	x.dry++
	defer func() { x.dry-- }()
	return x.evalSpec(e, sc, st), true
}

// specString renders a (small) contract expression without spaces, for syntactic comparison.
func specString(e ast.Expr) string {
	switch e := e.(type) {
	case *ast.Ident:
		return e.Name
	case *ast.StarExpr:
		return "*" + specString(e.X)
	case *ast.SelectorExpr:
		return specString(e.X) + "." + e.Sel.Name
	case *ast.ParenExpr:
		return "(" + specString(e.X) + ")"
	case *ast.CallExpr:
		var as []string
		for _, a := range e.Args {
			as = append(as, specString(a))
		}
		return specString(e.Fun) + "(" + strings.Join(as, ",") + ")"
	}
	return "?"
}

// flatFields lists the scalar leaves of a struct value together with their element-map keys.
type flatField struct {
	key  string
	ks   *Sort
	es   *Sort
	path []string
}

func (x *Exec) flattenStruct(t types.Type, path []string, key string, out *[]flatField) {
	fs, k := x.fieldsOf(t)
	if len(path) == 0 {
		key = k
	}
	for _, f := range fs {
		fpath := append(append([]string{}, path...), f.Name)
		if f.S == nil && x.isStruct(f.T) {
			x.flattenStruct(f.T, fpath, key, out)
			continue
		}
		srt := f.S
		if srt == nil {
			srt = x.sortOf(f.T)
		}
		hk, ks := x.structElemKey(key, fpath, srt, f.T)
		*out = append(*out, flatField{hk, ks, srt, fpath})
	}
}

func (x *Exec) leafOf(v *Value, t types.Type, path []string) *Term {
	cur, ct := v, t
	for _, name := range path {
		fs, _ := x.fieldsOf(ct)
		found := false
		for i, f := range fs {
			if f.Name == name {
				cur = cur.Fs[i]
				ct = f.T
				found = true
				break
			}
		}
		if !found {
			panic(engErr("leafOf: no field %s", name))
		}
	}
	if cur.Tm != nil && ct == nil {
		return cur.Tm
	}
	return x.coerce(cur, ct).term()
}

// evalAppendStruct: append(s, v1, ..., vn) for a slice of struct values (stored field-wise).
func (x *Exec) evalAppendStruct(call *ast.CallExpr, st *State, t types.Type, sl *types.Slice) *Value {
	if call.Ellipsis.IsValid() {
		panic(engErr("append(s, t...) of struct values not supported at %s", x.pos(call)))
	}
	base := x.coerce(x.eval(call.Args[0], st), t)
	var vals []*Value
	for _, a := range call.Args[1:] {
		vals = append(vals, x.coerce(x.eval(a, st), sl.Elem()))
	}
	var fields []flatField
	x.flattenStruct(sl.Elem(), nil, "", &fields)
	ln := SLen(base.Tm)
	addLen := IntLit(int64(len(vals)))
	newLen := Add(ln, addLen)
	fits := x.nameBool(And(Le(newLen, SCap(base.Tm)), Not(Eq(SArr(base.Tm), IntLit(0)))))
	ref := x.alloc(st)
	newCap := x.fresh("appcap", IntS)
	x.vc.assume(Ge(newCap, newLen))
	for _, ff := range fields {
		m := st.hget(ff.key, ff.ks)
		oldArr := Select(m, SArr(base.Tm))
		inPlace := oldArr
		for i, v := range vals {
			inPlace = Store(inPlace, Add(Add(SOff(base.Tm), ln), IntLit(int64(i))), x.leafOf(v, sl.Elem(), ff.path))
		}
		na := x.fresh("app", ArrS(IntS, ff.es))
		j := Var("j!", IntS)
		sel := mk("select", "", ff.es, nil, na, j)
		x.vc.assume(Forall([]*Term{j}, Implies(And(Le(IntLit(0), j), Lt(j, ln)),
			mk("=", "", BoolS, nil, sel, mk("select", "", ff.es, nil, oldArr, Add(SOff(base.Tm), j)))), sel))
		for i, v := range vals {
			x.vc.assume(Eq(Select(na, Add(ln, IntLit(int64(i)))), x.leafOf(v, sl.Elem(), ff.path)))
		}
		switch {
		case fits == True:
			st.hset(ff.key, x.vc.define("h", Store(m, SArr(base.Tm), x.vc.define("appa", inPlace))), SArr(base.Tm))
		case fits == False:
			st.hset(ff.key, x.vc.define("h", Store(m, ref, na)), ref)
		default:
			hIn := Store(m, SArr(base.Tm), x.vc.define("appa", inPlace))
			hRe := Store(m, ref, na)
			st.hset(ff.key, x.vc.define("h", Ite(fits, hIn, hRe)), nil)
			for w := st.wlog; w != nil; w = w.parent {
				w.heap = w.heap[:len(w.heap)-1]
				w.heap = append(w.heap, heapWrite{ff.key, SArr(base.Tm), And(st.guard, fits)}, heapWrite{ff.key, ref, And(st.guard, Not(fits))})
			}
		}
	}
	if fits == True {
		return &Value{T: t, Tm: MkSliceC(SArr(base.Tm), SOff(base.Tm), newLen, SCap(base.Tm))}
	}
	if fits == False {
		return &Value{T: t, Tm: MkSliceC(ref, IntLit(0), newLen, newCap)}
	}
	res := MkSliceC(Ite(fits, SArr(base.Tm), ref), Ite(fits, SOff(base.Tm), IntLit(0)), newLen, Ite(fits, SCap(base.Tm), newCap))
	return &Value{T: t, Tm: x.vc.define("appres", res)}
}
