package main

// Instantiation hints. SMT solvers instantiate quantified assumptions by matching
// patterns; element accesses of the form (select (select E arr) (+ off k)) are
// arithmetic patterns and are matched unreliably. emit() therefore adds, next to
// every included assumption that contains a universally quantified sub-formula in
// positive position, the instances of that assumption at the index terms that occur
// in the verification condition (loop counters, skolem constants of the goal).
// Every added formula is implied by the assumption it is derived from (a positive
// occurrence of "forall k. B(k)" is replaced by "B(t)"), so soundness is unaffected.

import (
	"fmt"
	"sort"
	"strings"
	"sync/atomic"
)

func isForall(t *Term) (nv, np int, ok bool) {
	if !strings.HasPrefix(t.Op, "forall/") {
		return 0, 0, false
	}
	fmt.Sscanf(t.Op, "forall/%d/%d", &nv, &np)
	return nv, np, true
}

// mapPos rebuilds t with f applied to every forall in positive position
// (reached through and/or/=>/not only). f returns nil to leave it.
func mapPos(t *Term, pos bool, f func(q *Term) *Term) *Term {
	switch t.Op {
	case "and", "or":
		args := make([]*Term, len(t.Args))
		ch := false
		for i, a := range t.Args {
			args[i] = mapPos(a, pos, f)
			ch = ch || args[i] != a
		}
		if !ch {
			return t
		}
		if t.Op == "and" {
			return And(args...)
		}
		return Or(args...)
	case "=>":
		if len(t.Args) != 2 {
			return t
		}
		a := mapPos(t.Args[0], !pos, f)
		b := mapPos(t.Args[1], pos, f)
		if a == t.Args[0] && b == t.Args[1] {
			return t
		}
		return Implies(a, b)
	case "not":
		a := mapPos(t.Args[0], !pos, f)
		if a == t.Args[0] {
			return t
		}
		return Not(a)
	}
	if _, _, ok := isForall(t); ok && pos {
		if r := f(t); r != nil {
			return r
		}
	}
	return t
}

// indexTerms collects the index terms (minus slice offsets) of inner-array
// selects in t. Bound variables of enclosing quantifiers are excluded.
func indexTerms(t *Term, out map[*Term]bool, seen map[*Term]bool, bound map[*Term]bool) {
	if seen[t] {
		return
	}
	seen[t] = true
	if nv, _, ok := isForall(t); ok {
		for i := 0; i < nv; i++ {
			bound[t.Args[i]] = true
		}
	}
	if t.Op == "select" && len(t.Args) == 2 && t.Args[1].S == IntS && t.Args[0].S.K == KArr && t.Args[0].S.Rng.K != KArr {
		root := t.Args[0]
		for root.Op == "store" {
			root = root.Args[0]
		}
		if root.Op == "select" || (root.Op == "var" && !isHeapName(root.Name)) {
			if it := stripOff(t.Args[1]); it != nil {
				out[it] = true
			} else {
				out[IntLit(0)] = true
			}
		}
	}
	for _, a := range t.Args {
		indexTerms(a, out, seen, bound)
	}
}

func isHeapName(n string) bool {
	for _, p := range []string{"F!", "G!", "B!", "hv.F", "hv.G", "hv.B", "h!", "hm!", "Md!", "Mv!", "Ml", "hv.M"} {
		if strings.HasPrefix(n, p) {
			return true
		}
	}
	return false
}

func stripOff(idx *Term) *Term {
	if idx.Op != "+" {
		if idx.Op == "s-off" {
			return nil
		}
		return idx
	}
	var rest []*Term
	for _, a := range idx.Args {
		if a.Op == "s-off" {
			continue
		}
		rest = append(rest, a)
	}
	switch len(rest) {
	case 0:
		return nil
	case 1:
		return rest[0]
	}
	r := rest[0]
	for _, a := range rest[1:] {
		r = Add(r, a)
	}
	return r
}

func mentions(t *Term, vs map[*Term]bool, cache map[*Term]bool) bool {
	if r, ok := cache[t]; ok {
		return r
	}
	r := false
	if t.Op == "var" {
		r = vs[t]
	} else {
		for _, a := range t.Args {
			if mentions(a, vs, cache) {
				r = true
				break
			}
		}
	}
	cache[t] = r
	return r
}

var skolemCtr atomic.Int64

// skolemizeGoal replaces positive single-variable Int foralls of the goal by fresh constants.
func skolemizeGoal(g *Term) (*Term, []*Term) {
	var sks []*Term
	for round := 0; round < 6; round++ {
		r, more := skolemizeOnce(g)
		if len(more) == 0 {
			break
		}
		g = r
		sks = append(sks, more...)
	}
	return g, sks
}

func skolemizeOnce(g *Term) (*Term, []*Term) {
	var sks []*Term
	r := mapPos(g, true, func(q *Term) *Term {
		nv, _, _ := isForall(q)
		m := map[*Term]*Term{}
		for i := 0; i < nv; i++ {
			sk := Var(fmt.Sprintf("sk!%d", skolemCtr.Add(1)), q.Args[i].S)
			sks = append(sks, sk)
			m[q.Args[i]] = sk
		}
		return Subst(q.Args[nv], m)
	})
	return r, sks
}

const maxInstances = 800

// instances returns instantiations of the quantified assumptions among facts.
func instances(facts []*Term, goal *Term, extra []*Term, also ...*Term) []*Term {
	cands := map[*Term]bool{}
	bound := map[*Term]bool{}
	seen := map[*Term]bool{}
	indexTerms(goal, cands, seen, bound)
	for _, f := range facts {
		indexTerms(f, cands, seen, bound)
	}
	for _, f := range also {
		indexTerms(f, cands, seen, bound)
	}
	for _, e := range extra {
		cands[e] = true
	}
	mc := map[*Term]bool{}
	var cl []*Term
	for c := range cands {
		if c.Op == "var" && (strings.HasPrefix(c.Name, "alloc!") || strings.HasPrefix(c.Name, "hv!") || strings.HasPrefix(c.Name, "ret.") || strings.HasPrefix(c.Name, "box!")) {
			continue // references, not indices
		}
		if c.S == IntS && !mentions(c, bound, mc) {
			cl = append(cl, c)
		}
	}
	// plain variables (loop counters, the goal's skolem constants) and literals first, then the
	// most recent compound index terms
	rank := func(t *Term) int {
		if t.Op == "var" || t.Op == "lit" {
			return 0
		}
		return 1
	}
	sort.Slice(cl, func(i, j int) bool {
		if rank(cl[i]) != rank(cl[j]) {
			return rank(cl[i]) < rank(cl[j])
		}
		return cl[i].id > cl[j].id
	})
	if len(cl) > 28 {
		cl = cl[:28]
	}
	var out []*Term
	dedup := map[*Term]bool{}
	for _, f := range facts {
		hasQ := false
		mapPos(f, true, func(q *Term) *Term { hasQ = true; return nil })
		if !hasQ {
			continue
		}
		for _, c := range cl {
			inst := mapPos(f, true, func(q *Term) *Term {
				nv, _, _ := isForall(q)
				if nv != 1 || q.Args[0].S != IntS || !indexesWith(q.Args[1], q.Args[0]) {
					return nil
				}
				return Subst(q.Args[1], map[*Term]*Term{q.Args[0]: c})
			})
			if inst != f && inst != True && !dedup[inst] {
				dedup[inst] = true
				out = append(out, inst)
				if len(out) >= maxInstances {
					return out
				}
			}
		}
	}
	return out
}

// indexesWith reports whether v occurs in an element-index position in body.
func indexesWith(body, v *Term) bool {
	out := map[*Term]bool{}
	indexTerms(body, out, map[*Term]bool{}, map[*Term]bool{})
	vs := map[*Term]bool{v: true}
	mc := map[*Term]bool{}
	for t := range out {
		if mentions(t, vs, mc) {
			return true
		}
	}
	return false
}

// ---------- ground mode ----------
//
// In ground mode every quantified program fact is replaced by (a) its skeleton with the
// positive quantifiers weakened to true and (b) instances: index instances as above and
// pattern instances obtained by matching the quantifier's explicit patterns against the
// ground terms of the verification condition (a one-level e-matcher without congruence).
// Facts with a quantifier in a non-positive position are dropped. All of this only
// weakens the assumptions, so an "unsat" answer remains a proof.

func containsForall(t *Term, cache map[*Term]bool) bool {
	if r, ok := cache[t]; ok {
		return r
	}
	r := false
	if _, _, ok := isForall(t); ok {
		r = true
	} else {
		for _, a := range t.Args {
			if containsForall(a, cache) {
				r = true
				break
			}
		}
	}
	cache[t] = r
	return r
}

func matchPat(pat, t *Term, vars map[*Term]bool, b map[*Term]*Term) bool {
	if vars[pat] {
		if x, ok := b[pat]; ok {
			return x == t
		}
		if pat.S != t.S {
			return false
		}
		b[pat] = t
		return true
	}
	if pat == t {
		return true
	}
	if pat.Op != t.Op || pat.Name != t.Name || len(pat.Args) != len(t.Args) || pat.S != t.S || pat.Op == "lit" || pat.Op == "var" {
		return false
	}
	for i := range pat.Args {
		if !matchPat(pat.Args[i], t.Args[i], vars, b) {
			return false
		}
	}
	return true
}

// groundTerms indexes the binder-free subterms of ts by operator.
func groundTerms(ts []*Term, idx map[string][]*Term, seen map[*Term]bool, defs map[*Term]*Term) {
	var rec func(t *Term) bool // returns true if t mentions a bound variable
	boundNow := map[*Term]int{}
	memo := map[*Term]bool{}
	rec = func(t *Term) bool {
		if len(boundNow) == 0 {
			if r, ok := memo[t]; ok {
				return r
			}
		}
		hasB := false
		if t.Op == "var" {
			hasB = boundNow[t] > 0
		} else if nv, _, ok := isForall(t); ok {
			for i := 0; i < nv; i++ {
				boundNow[t.Args[i]]++
			}
			for _, a := range t.Args[nv:] {
				rec(a)
			}
			for i := 0; i < nv; i++ {
				boundNow[t.Args[i]]--
				if boundNow[t.Args[i]] == 0 {
					delete(boundNow, t.Args[i])
				}
			}
			hasB = true
		} else {
			for _, a := range t.Args {
				if rec(a) {
					hasB = true
				}
			}
		}
		if len(boundNow) == 0 {
			memo[t] = hasB
		}
		if !hasB && !seen[t] && t.Op != "lit" && t.Op != "var" {
			seen[t] = true
			idx[t.Op] = append(idx[t.Op], t)
			if t.Op == "select" && len(t.Args) == 2 {
				// reads through store chains (and named intermediate maps) also read the maps below
				for _, under := range underlying(t.Args[0], defs, 0) {
					u := mk("select", "", t.S, nil, under, t.Args[1])
					if !seen[u] {
						seen[u] = true
						idx["select"] = append(idx["select"], u)
					}
				}
			}
		}
		return hasB
	}
	for _, t := range ts {
		rec(t)
	}
}

const maxGroundInstances = 4000

// groundFacts returns the quantifier-free replacement of facts for goal.
// skolemizeFact replaces existential quantifiers of an assumed formula (universal quantifiers in
// negative position) by fresh constants. The result is equisatisfiable, which is all a refutation needs.
func skolemizeFact(t *Term) (*Term, []*Term) {
	var sks []*Term
	r := mapNeg(t, func(q *Term) *Term {
		nv, _, _ := isForall(q)
		m := map[*Term]*Term{}
		for i := 0; i < nv; i++ {
			sk := Var(fmt.Sprintf("skf!%d", skolemCtr.Add(1)), q.Args[i].S)
			sks = append(sks, sk)
			m[q.Args[i]] = sk
		}
		return Subst(q.Args[nv], m)
	})
	return r, sks
}

func groundFacts(facts []*Term, goal *Term, extra []*Term) ([]*Term, []*Term) {
	// existential facts get witnesses (which then serve as instantiation candidates)
	{
		nf := make([]*Term, len(facts))
		cf := map[*Term]bool{}
		for i, f := range facts {
			// an equivalence with a quantified side is split into its two implications first
			f = splitIff(f, cf)
			// only at top level (not under a universal quantifier, where a witness would depend on it)
			g, sks := skolemizeFact(f)
			nf[i] = g
			extra = append(extra, sks...)
		}
		facts = nf
	}
	newSk := append([]*Term{}, extra...)
	fc := map[*Term]bool{}
	var out []*Term
	var quant []*Term
	for _, f := range facts {
		if !containsForall(f, fc) {
			out = append(out, f)
			continue
		}
		sk := mapPos(f, true, func(q *Term) *Term { return True })
		if containsForall(sk, fc) {
			continue // quantifier in a non-positive position: drop the fact
		}
		if sk != True {
			out = append(out, sk)
		}
		quant = append(quant, f)
	}
	// quantified facts that are assumed as such (possibly under guards), in canonical form: an
	// instance of a lemma whose hypothesis is literally one of them may use it
	known := map[*Term]*Term{}
	for _, f := range facts {
		var guards []*Term
		g := f
		for g.Op == "=>" && len(g.Args) == 2 {
			guards = append(guards, g.Args[0])
			g = g.Args[1]
		}
		conj := []*Term{g}
		if g.Op == "and" {
			conj = g.Args
		}
		for _, c := range conj {
			if _, _, ok := isForall(c); ok {
				known[canonForall(c)] = And(guards...)
			}
		}
	}
	discharge := func(t *Term) *Term {
		// t = (=> H C) possibly under guards: replace conjuncts of H that are known foralls by their guards
		return mapNeg(t, func(q *Term) *Term {
			if g, ok := known[canonForall(q)]; ok {
				return g
			}
			return nil
		})
	}
	dedup := map[*Term]bool{}
	n := 0
	add := func(t *Term) bool {
		if containsForall(t, fc) {
			t = discharge(t)
		}
		if containsForall(t, fc) {
			// existentials inside an instance get their own witnesses
			var sks []*Term
			t, sks = skolemizeFact(t)
			newSk = append(newSk, sks...)
		}
		if t == True || dedup[t] || containsForall(t, fc) {
			return false
		}
		dedup[t] = true
		out = append(out, t)
		n++
		return true
	}
	first := instances(quant, goal, extra, out...)
	// second round: quantifiers nested inside an instance (and quantifiers over non-index variables,
	// e.g. map keys) are instantiated at the goal's skolem constants
	var second []*Term
	if len(extra) > 0 {
		for _, t := range append(append([]*Term{}, first...), quant...) {
			has := false
			mapPos(t, true, func(q *Term) *Term { has = true; return nil })
			if !has {
				continue
			}
			// every combination: one positive quantifier at a time, each with every skolem
			var expand func(t *Term, depth int)
			expand = func(t *Term, depth int) {
				if depth > 3 || len(second) > 1500 {
					return
				}
				for _, sk := range extra {
					done := false
					inst := mapPos(t, true, func(q *Term) *Term {
						nv, _, _ := isForall(q)
						if done || nv != 1 || q.Args[0].S != sk.S {
							return nil
						}
						done = true
						return Subst(q.Args[1], map[*Term]*Term{q.Args[0]: sk})
					})
					if inst != t {
						second = append(second, inst)
						expand(inst, depth+1)
					}
				}
			}
			expand(t, 0)
		}
	}
	nsk0 := len(newSk)
	for _, t := range append(first, second...) {
		// quantifiers still left in an instance are weakened away
		add(mapPos(t, true, func(q *Term) *Term { return True }))
	}
	// witnesses introduced while adding instances are instantiation candidates too (one more round)
	if late := newSk[nsk0:]; len(late) > 0 && len(late) <= 12 {
		late = append([]*Term{}, late...)
		var third []*Term
		for _, t := range quant {
			for _, sk := range late {
				done := false
				inst := mapPos(t, true, func(q *Term) *Term {
					nv, _, _ := isForall(q)
					if done || nv != 1 || q.Args[0].S != sk.S {
						return nil
					}
					done = true
					return Subst(q.Args[1], map[*Term]*Term{q.Args[0]: sk})
				})
				if inst != t {
					third = append(third, inst)
				}
			}
		}
		for _, t := range third {
			add(mapPos(t, true, func(q *Term) *Term { return True }))
		}
	}
	idx := map[string][]*Term{}
	seen := map[*Term]bool{}
	defs := map[*Term]*Term{}
	for _, f := range out {
		if f.Op == "=" && len(f.Args) == 2 && f.Args[0].Op == "var" && f.Args[0].S.K == KArr {
			defs[f.Args[0]] = f.Args[1]
		}
	}
	groundTerms(append(append([]*Term{goal}, out...), extra...), idx, seen, defs)
	for round := 0; round < 4 && n < maxGroundInstances; round++ {
		var fresh []*Term
		for _, f := range quant {
			// one quantifier at a time: the others are weakened to true
			var qs []*Term
			mapPos(f, true, func(q *Term) *Term { qs = append(qs, q); return nil })
			for _, q := range qs {
				nv, np, _ := isForall(q)
				if np == 0 {
					continue
				}
				vars := map[*Term]bool{}
				for i := 0; i < nv; i++ {
					vars[q.Args[i]] = true
				}
				for _, pat := range q.Args[nv+1:] {
					for _, b := range matchAll(pat, idx, vars) {
						if len(b) != nv {
							continue
						}
						inst := mapPos(f, true, func(q2 *Term) *Term {
							if q2 != q {
								return True
							}
							return Subst(q.Args[nv], b)
						})
						if add(inst) {
							fresh = append(fresh, inst)
							if n >= maxGroundInstances {
								return out, newSk
							}
						}
					}
				}
			}
		}
		if len(fresh) == 0 {
			break
		}
		groundTerms(fresh, idx, seen, defs)
	}
	return out, newSk
}

// underlying lists the maps a read of arr may fall through to.
func underlying(arr *Term, defs map[*Term]*Term, depth int) []*Term {
	if depth > 40 {
		return nil
	}
	switch {
	case arr.Op == "store":
		return append([]*Term{arr.Args[0]}, underlying(arr.Args[0], defs, depth+1)...)
	case arr.Op == "ite":
		r := []*Term{arr.Args[1], arr.Args[2]}
		r = append(r, underlying(arr.Args[1], defs, depth+1)...)
		return append(r, underlying(arr.Args[2], defs, depth+1)...)
	case arr.Op == "var":
		if d, ok := defs[arr]; ok {
			return append([]*Term{d}, underlying(d, defs, depth+1)...)
		}
	}
	return nil
}

// matchAll returns the bindings under which pat (a term or a multi-pattern) matches ground terms.
func matchAll(pat *Term, idx map[string][]*Term, vars map[*Term]bool) []map[*Term]*Term {
	parts := []*Term{pat}
	if pat.Op == "mpat" {
		parts = pat.Args
	}
	res := []map[*Term]*Term{{}}
	for _, p := range parts {
		var next []map[*Term]*Term
		for _, b0 := range res {
			for _, g := range idx[p.Op] {
				b := map[*Term]*Term{}
				for k, v := range b0 {
					b[k] = v
				}
				if matchPat(p, g, vars, b) {
					next = append(next, b)
					if len(next) > 400 {
						break
					}
				}
			}
		}
		res = next
		if len(res) == 0 {
			return nil
		}
	}
	return res
}

// canonForall renames the bound variables of a quantifier to canonical names.
func canonForall(q *Term) *Term {
	nv, _, _ := isForall(q)
	m := map[*Term]*Term{}
	var vs []*Term
	for i := 0; i < nv; i++ {
		c := Var(fmt.Sprintf("cb!%d", i), q.Args[i].S)
		m[q.Args[i]] = c
		vs = append(vs, c)
	}
	return Forall(vs, Subst(q.Args[nv], m))
}

// mapNeg rebuilds t with f applied to every forall in negative position (hypotheses).
func mapNeg(t *Term, f func(q *Term) *Term) *Term {
	var rec func(t *Term, pos bool) *Term
	rec = func(t *Term, pos bool) *Term {
		switch t.Op {
		case "and", "or":
			args := make([]*Term, len(t.Args))
			ch := false
			for i, a := range t.Args {
				args[i] = rec(a, pos)
				ch = ch || args[i] != a
			}
			if !ch {
				return t
			}
			if t.Op == "and" {
				return And(args...)
			}
			return Or(args...)
		case "=>":
			if len(t.Args) != 2 {
				return t
			}
			a := rec(t.Args[0], !pos)
			b := rec(t.Args[1], pos)
			if a == t.Args[0] && b == t.Args[1] {
				return t
			}
			return Implies(a, b)
		case "not":
			a := rec(t.Args[0], !pos)
			if a == t.Args[0] {
				return t
			}
			return Not(a)
		}
		if _, _, ok := isForall(t); ok && !pos {
			if r := f(t); r != nil {
				return r
			}
		}
		return t
	}
	return rec(t, true)
}

// splitIff rewrites Boolean equalities that have a quantified side into two implications, so that
// each quantifier occurrence has a definite polarity.
func splitIff(t *Term, cf map[*Term]bool) *Term {
	if !containsForall(t, cf) {
		return t
	}
	switch t.Op {
	case "and", "or", "=>", "not":
		args := make([]*Term, len(t.Args))
		ch := false
		for i, a := range t.Args {
			args[i] = splitIff(a, cf)
			ch = ch || args[i] != a
		}
		if !ch {
			return t
		}
		switch t.Op {
		case "and":
			return And(args...)
		case "or":
			return Or(args...)
		case "not":
			return Not(args[0])
		}
		if len(args) == 2 {
			return Implies(args[0], args[1])
		}
		return t
	case "=":
		if len(t.Args) == 2 && t.Args[0].S == BoolS {
			a, b := splitIff(t.Args[0], cf), splitIff(t.Args[1], cf)
			return And(Implies(a, b), Implies(b, a))
		}
	}
	return t
}
