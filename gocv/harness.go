package main

func runReplayHarness(eng *Engine, prop string, r *FuncResult, o *Obligation, path string) bool { return false }
func runReplayFile(t string, m map[string]any) int                                            { return 0 }
