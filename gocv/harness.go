package main

// Replay harnesses: for some function families a hand-written in-package differential test exists
// under /verif/replay/harness. When an obligation of such a function fails, the test is run against the
// tree under check (go test -overlay, nothing is written into the tree). The test drives the REAL code
// with the inputs of the solver's model where it can use them, then with a fixed battery of edge and
// pseudo-random inputs, and compares with an independent oracle (math/big, the specification). If it
// finds an input on which the real code violates the property it prints "GOCV-REPRODUCED <input>" and
// fails; only then is the violation reported as reproduced.

import (
	"encoding/json"
	"os"
	"os/exec"
	"path/filepath"
	"strings"
)

type harnessEntry struct {
	Props []string `json:"props"` // properties whose violations this battery can reproduce
	Pkg   string   `json:"pkg"`   // package directory relative to the repository root
	Test  string   `json:"test"`  // comma-separated test files under /verif/replay/harness
	Run   map[string]string `json:"run"` // property -> -run pattern of the tests that exercise it
	Race  bool     `json:"race"`  // run with the race detector
}

func loadHarnesses() []harnessEntry {
	data, err := os.ReadFile(filepath.Join(verifRoot, "replay", "harness.json"))
	if err != nil {
		return nil
	}
	var hs []harnessEntry
	json.Unmarshal(data, &hs)
	return hs
}

var harnessDone = map[string]string{} // test name -> cached outcome ("yes:<output>" / "no:<output>")

func runReplayHarness(eng *Engine, prop string, r *FuncResult, o *Obligation, path string) bool {
	for _, h := range loadHarnesses() {
		if !contains(h.Props, prop) {
			continue
		}
		key := h.Pkg + "/" + prop + "@" + eng.repo
		res, ok := harnessDone[key]
		if !ok {
			var files []string
			for _, f := range strings.Split(h.Test, ",") {
				files = append(files, filepath.Join(verifRoot, "replay", "harness", strings.TrimSpace(f)))
			}
			args := []string{eng.repo, h.Pkg, strings.Join(files, ","), h.Run[prop]}
			if h.Race {
				args = append(args, "-race")
			}
			cmd := exec.Command(filepath.Join(verifRoot, "tools", "run_replay.sh"), args...)
			cmd.Env = append(os.Environ(), "GOCV_REPLAY_FILE="+path)
			out, err := cmd.CombinedOutput()
			if err != nil && (strings.Contains(string(out), "GOCV-REPRODUCED") || strings.Contains(string(out), "--- FAIL")) && !strings.Contains(string(out), "[build failed]") {
				res = "yes:" + string(out)
			} else {
				res = "no:" + string(out)
			}
			harnessDone[key] = res
		}
		// record the outcome in the replay file
		data, err := os.ReadFile(path)
		if err == nil {
			m := map[string]any{}
			json.Unmarshal(data, &m)
			m["replay_test"] = h.Test
			m["replay_test_name"] = h.Run[prop]
			m["replay_race"] = h.Race
			m["replay_pkg"] = h.Pkg
			m["replay_output"] = trunc(res[strings.Index(res, ":")+1:], 4000)
			m["reproduced_on_real_code"] = strings.HasPrefix(res, "yes:")
			nd, _ := json.MarshalIndent(m, "", " ")
			os.WriteFile(path, nd, 0o644)
		}
		if strings.HasPrefix(res, "yes:") {
			return true
		}
	}
	return false
}

// runReplayFile re-runs the harness recorded in a replay file against /repo.
func runReplayFile(t string, m map[string]any) int {
	name, _ := m["replay_test_name"].(string)
	pkg, _ := m["replay_pkg"].(string)
	if name == "" || pkg == "" {
		return 0
	}
	var files []string
	for _, f := range strings.Split(t, ",") {
		files = append(files, filepath.Join(verifRoot, "replay", "harness", strings.TrimSpace(f)))
	}
	args := []string{"/repo", pkg, strings.Join(files, ","), name}
	if rc, _ := m["replay_race"].(bool); rc {
		args = append(args, "-race")
	}
	cmd := exec.Command(filepath.Join(verifRoot, "tools", "run_replay.sh"), args...)
	out, err := cmd.CombinedOutput()
	os.Stdout.Write(out)
	if err != nil && (strings.Contains(string(out), "GOCV-REPRODUCED") || strings.Contains(string(out), "--- FAIL")) && !strings.Contains(string(out), "[build failed]") {
		return 1
	}
	return 0
}
