package main

// Term layer: hash-consed SMT terms with light simplification at construction.

import (
	"fmt"
	"math/big"
	"sort"
	"strings"
	"sync"
)

type SortKind int

const (
	KBool SortKind = iota
	KInt
	KBV
	KUn
	KArr
	KSlice
)

type Sort struct {
	K        SortKind
	W        int
	Name     string
	Dom, Rng *Sort
	str      string
}

var sortTab = map[string]*Sort{}
var sortMu sync.Mutex

func internSort(s *Sort) *Sort {
	switch s.K {
	case KBool:
		s.str = "Bool"
	case KInt:
		s.str = "Int"
	case KBV:
		s.str = fmt.Sprintf("(_ BitVec %d)", s.W)
	case KUn:
		s.str = s.Name
	case KArr:
		s.str = "(Array " + s.Dom.str + " " + s.Rng.str + ")"
	case KSlice:
		s.str = "Slice"
	}
	sortMu.Lock()
	defer sortMu.Unlock()
	if o, ok := sortTab[s.str]; ok {
		return o
	}
	sortTab[s.str] = s
	return s
}

var (
	BoolS  = internSort(&Sort{K: KBool})
	IntS   = internSort(&Sort{K: KInt})
	SliceS = internSort(&Sort{K: KSlice})
)

func BVS(w int) *Sort          { return internSort(&Sort{K: KBV, W: w}) }
func UnS(name string) *Sort    { return internSort(&Sort{K: KUn, Name: name}) }
func ArrS(d, r *Sort) *Sort    { return internSort(&Sort{K: KArr, Dom: d, Rng: r}) }
func (s *Sort) String() string { return s.str }

// parseSort parses an SMT sort string as used in the prelude.
func parseSort(s string) *Sort {
	s = strings.TrimSpace(s)
	switch s {
	case "Bool":
		return BoolS
	case "Int":
		return IntS
	case "Slice":
		return SliceS
	}
	if strings.HasPrefix(s, "(_ BitVec ") {
		var w int
		fmt.Sscanf(s, "(_ BitVec %d)", &w)
		return BVS(w)
	}
	if strings.HasPrefix(s, "(Array ") {
		parts := splitSexp(s[1 : len(s)-1])
		return ArrS(parseSort(parts[1]), parseSort(parts[2]))
	}
	return UnS(s)
}

// splitSexp splits the inside of a parenthesised list into top-level items.
func splitSexp(s string) []string {
	var out []string
	depth := 0
	start := -1
	for i, c := range s {
		switch {
		case c == '(':
			if depth == 0 && start < 0 {
				start = i
			}
			depth++
		case c == ')':
			depth--
			if depth == 0 && start >= 0 {
				out = append(out, s[start:i+1])
				start = -1
			}
		case c == ' ' || c == '\n' || c == '\t':
			if depth == 0 && start >= 0 {
				out = append(out, s[start:i])
				start = -1
			}
		default:
			if start < 0 {
				start = i
			}
		}
	}
	if start >= 0 {
		out = append(out, s[start:])
	}
	return out
}

type Term struct {
	Op   string // "lit", "var", or operator / function symbol
	Name string // var name
	Args []*Term
	S    *Sort
	Int  *big.Int // literal value (Int, BV); Bool literal: 0/1
	id   int
	size int
}

var termTab = map[string]*Term{}
var termCount int
var termMu sync.Mutex

func mk(op, name string, s *Sort, lit *big.Int, args ...*Term) *Term {
	var b strings.Builder
	b.WriteString(op)
	b.WriteByte('|')
	b.WriteString(name)
	b.WriteByte('|')
	b.WriteString(s.str)
	if lit != nil {
		b.WriteByte('|')
		b.WriteString(lit.String())
	}
	sz := 1
	for _, a := range args {
		fmt.Fprintf(&b, ",%d", a.id)
		sz += a.size
		if sz > 1<<30 {
			sz = 1 << 30
		}
	}
	k := b.String()
	termMu.Lock()
	defer termMu.Unlock()
	if t, ok := termTab[k]; ok {
		return t
	}
	termCount++
	t := &Term{Op: op, Name: name, Args: args, S: s, Int: lit, id: termCount, size: sz}
	termTab[k] = t
	return t
}

var (
	True  = mk("lit", "", BoolS, big.NewInt(1))
	False = mk("lit", "", BoolS, big.NewInt(0))
)

func BoolLit(b bool) *Term {
	if b {
		return True
	}
	return False
}
func IntLit(n int64) *Term           { return mk("lit", "", IntS, big.NewInt(n)) }
func IntLitB(n *big.Int) *Term       { return mk("lit", "", IntS, new(big.Int).Set(n)) }
func Var(name string, s *Sort) *Term { return mk("var", name, s, nil) }
func BVLit(n *big.Int, w int) *Term {
	m := new(big.Int).Lsh(big.NewInt(1), uint(w))
	v := new(big.Int).Mod(n, m)
	return mk("lit", "", BVS(w), v)
}

func (t *Term) IsLit() bool   { return t.Op == "lit" }
func (t *Term) IsTrue() bool  { return t == True }
func (t *Term) IsFalse() bool { return t == False }

func App(fn string, s *Sort, args ...*Term) *Term { return mk(fn, "", s, nil, args...) }

func Not(a *Term) *Term {
	if a == True {
		return False
	}
	if a == False {
		return True
	}
	if a.Op == "not" {
		return a.Args[0]
	}
	return mk("not", "", BoolS, nil, a)
}

func And(as ...*Term) *Term {
	var out []*Term
	seen := map[*Term]bool{}
	for _, a := range as {
		if a == nil || a == True {
			continue
		}
		if a == False {
			return False
		}
		if a.Op == "and" {
			for _, x := range a.Args {
				if !seen[x] {
					seen[x] = true
					out = append(out, x)
				}
			}
			continue
		}
		if !seen[a] {
			seen[a] = true
			out = append(out, a)
		}
	}
	for _, a := range out {
		if seen[Not(a)] && a.Op != "not" {
			return False
		}
	}
	if len(out) == 0 {
		return True
	}
	if len(out) == 1 {
		return out[0]
	}
	return mk("and", "", BoolS, nil, out...)
}

func Or(as ...*Term) *Term {
	var out []*Term
	seen := map[*Term]bool{}
	for _, a := range as {
		if a == nil || a == False {
			continue
		}
		if a == True {
			return True
		}
		if a.Op == "or" {
			for _, x := range a.Args {
				if !seen[x] {
					seen[x] = true
					out = append(out, x)
				}
			}
			continue
		}
		if !seen[a] {
			seen[a] = true
			out = append(out, a)
		}
	}
	for _, a := range out {
		if seen[Not(a)] && a.Op != "not" {
			return True
		}
	}
	if len(out) == 0 {
		return False
	}
	if len(out) == 1 {
		return out[0]
	}
	return mk("or", "", BoolS, nil, out...)
}

func Implies(a, b *Term) *Term {
	if a == True {
		return b
	}
	if a == False || b == True {
		return True
	}
	if b == False {
		return Not(a)
	}
	return mk("=>", "", BoolS, nil, a, b)
}

func Ite(c, a, b *Term) *Term {
	if c == True {
		return a
	}
	if c == False {
		return b
	}
	if a == b {
		return a
	}
	if a.S == BoolS {
		if a == True && b == False {
			return c
		}
		if a == False && b == True {
			return Not(c)
		}
	}
	if a.S != b.S {
		panic(fmt.Sprintf("ite sort mismatch %s vs %s: %s / %s", a.S, b.S, a.SMT(), b.SMT()))
	}
	return mk("ite", "", a.S, nil, c, a, b)
}

func Eq(a, b *Term) *Term {
	if a == b {
		return True
	}
	if a.S != b.S {
		panic(fmt.Sprintf("eq sort mismatch %s vs %s: %s / %s", a.S, b.S, a.SMT(), b.SMT()))
	}
	if a.IsLit() && b.IsLit() {
		return BoolLit(a.Int.Cmp(b.Int) == 0)
	}
	if a.S == BoolS {
		if a == True {
			return b
		}
		if b == True {
			return a
		}
		if a == False {
			return Not(b)
		}
		if b == False {
			return Not(a)
		}
	}
	// distinct fresh allocation offsets: (+ base k1) vs (+ base k2)
	if a.S == IntS {
		if ba, ka, ok := splitOffset(a); ok {
			if bb, kb, ok2 := splitOffset(b); ok2 && ba == bb {
				return BoolLit(ka.Cmp(kb) == 0)
			}
		}
	}
	if a.Op == "mk-slice" && b.Op == "mk-slice" {
		return And(Eq(a.Args[0], b.Args[0]), Eq(a.Args[1], b.Args[1]), Eq(a.Args[2], b.Args[2]), Eq(a.Args[3], b.Args[3]))
	}
	if a.id > b.id {
		a, b = b, a
	}
	return mk("=", "", BoolS, nil, a, b)
}

// splitOffset decomposes t as base + k (k literal), base may be nil for pure literal.
func splitOffset(t *Term) (*Term, *big.Int, bool) {
	if t.IsLit() {
		return nil, t.Int, true
	}
	if t.Op == "+" && len(t.Args) == 2 && t.Args[1].IsLit() {
		return t.Args[0], t.Args[1].Int, true
	}
	if t.Op == "var" {
		return t, big.NewInt(0), true
	}
	return nil, nil, false
}

func cmpLit(op string, a, b *big.Int) bool {
	c := a.Cmp(b)
	switch op {
	case "<":
		return c < 0
	case "<=":
		return c <= 0
	case ">":
		return c > 0
	case ">=":
		return c >= 0
	}
	panic(op)
}

func Cmp(op string, a, b *Term) *Term {
	if a.S != IntS || b.S != IntS {
		panic("Cmp on non-int: " + a.SMT() + " " + b.SMT())
	}
	if a.IsLit() && b.IsLit() {
		return BoolLit(cmpLit(op, a.Int, b.Int))
	}
	if a == b {
		return BoolLit(op == "<=" || op == ">=")
	}
	if ba, ka, ok := splitOffset(a); ok {
		if bb, kb, ok2 := splitOffset(b); ok2 && ba == bb && ba != nil {
			return BoolLit(cmpLit(op, ka, kb))
		}
	}
	return mk(op, "", BoolS, nil, a, b)
}
func Lt(a, b *Term) *Term { return Cmp("<", a, b) }
func Le(a, b *Term) *Term { return Cmp("<=", a, b) }
func Ge(a, b *Term) *Term { return Cmp(">=", a, b) }
func Gt(a, b *Term) *Term { return Cmp(">", a, b) }

func Add(a, b *Term) *Term {
	if a.IsLit() && b.IsLit() {
		return IntLitB(new(big.Int).Add(a.Int, b.Int))
	}
	if a.IsLit() {
		a, b = b, a
	}
	if b.IsLit() {
		if b.Int.Sign() == 0 {
			return a
		}
		if a.Op == "+" && len(a.Args) == 2 && a.Args[1].IsLit() {
			return Add(a.Args[0], IntLitB(new(big.Int).Add(a.Args[1].Int, b.Int)))
		}
	}
	return mk("+", "", IntS, nil, a, b)
}
func Sub(a, b *Term) *Term {
	if b.IsLit() {
		return Add(a, IntLitB(new(big.Int).Neg(b.Int)))
	}
	if a == b {
		return IntLit(0)
	}
	if a.IsLit() && a.Int.Sign() == 0 {
		return NegT(b)
	}
	// (x + k) - x
	if ba, ka, ok := splitOffset(a); ok && ba != nil {
		if bb, kb, ok2 := splitOffset(b); ok2 && ba == bb {
			return IntLitB(new(big.Int).Sub(ka, kb))
		}
	}
	return mk("-", "", IntS, nil, a, b)
}
func NegT(a *Term) *Term {
	if a.IsLit() {
		return IntLitB(new(big.Int).Neg(a.Int))
	}
	return mk("-", "", IntS, nil, a)
}
func Mul(a, b *Term) *Term {
	if a.IsLit() && b.IsLit() {
		return IntLitB(new(big.Int).Mul(a.Int, b.Int))
	}
	if a.IsLit() {
		a, b = b, a
	}
	if b.IsLit() {
		if b.Int.Sign() == 0 {
			return IntLit(0)
		}
		if b.Int.Cmp(big.NewInt(1)) == 0 {
			return a
		}
	}
	return mk("*", "", IntS, nil, a, b)
}

// Div / Mod: SMT-LIB Euclidean semantics.
func DivE(a, b *Term) *Term {
	if a.IsLit() && b.IsLit() && b.Int.Sign() != 0 {
		q, m := new(big.Int), new(big.Int)
		q.DivMod(a.Int, b.Int, m) // Euclidean
		return IntLitB(q)
	}
	if b.IsLit() && b.Int.Cmp(big.NewInt(1)) == 0 {
		return a
	}
	return mk("div", "", IntS, nil, a, b)
}
func ModE(a, b *Term) *Term {
	if a.IsLit() && b.IsLit() && b.Int.Sign() != 0 {
		q, m := new(big.Int), new(big.Int)
		q.DivMod(a.Int, b.Int, m)
		return IntLitB(m)
	}
	// mod(mod(x, m), m) = mod(x, m)
	if a.Op == "mod" && a.Args[1] == b {
		return a
	}
	return mk("mod", "", IntS, nil, a, b)
}

func Select(arr, idx *Term) *Term {
	if arr.S.K != KArr {
		panic("select on non-array " + arr.SMT())
	}
	if idx.S != arr.S.Dom {
		panic(fmt.Sprintf("select index sort %s on %s", idx.S, arr.S))
	}
	for a := arr; ; {
		if a.Op == "store" {
			e := Eq(a.Args[1], idx)
			if e == True {
				return a.Args[2]
			}
			if e == False {
				a = a.Args[0]
				arr = a
				continue
			}
			break
		}
		if a.Op == "const-array" {
			return a.Args[0]
		}
		break
	}
	return mk("select", "", arr.S.Rng, nil, arr, idx)
}

func Store(arr, idx, v *Term) *Term {
	if arr.S.K != KArr || idx.S != arr.S.Dom || v.S != arr.S.Rng {
		panic(fmt.Sprintf("store sort mismatch: %s [%s] := %s", arr.S, idx.S, v.S))
	}
	// overwrite of the same literal index directly on top
	if arr.Op == "store" && Eq(arr.Args[1], idx) == True {
		return Store(arr.Args[0], idx, v)
	}
	return mk("store", "", arr.S, nil, arr, idx, v)
}

func ConstArray(s *Sort, v *Term) *Term { return mk("const-array", "", s, nil, v) }

// Slice datatype
func MkSlice(arr, off, ln *Term) *Term { return MkSliceC(arr, off, ln, ln) }
func MkSliceC(arr, off, ln, cp *Term) *Term {
	return mk("mk-slice", "", SliceS, nil, arr, off, ln, cp)
}
func SCap(s *Term) *Term { return sliceAcc("s-cap", 3, s) }
func sliceAcc(name string, i int, s *Term) *Term {
	if s.Op == "mk-slice" {
		return s.Args[i]
	}
	if s.Op == "ite" {
		return Ite(s.Args[0], sliceAcc(name, i, s.Args[1]), sliceAcc(name, i, s.Args[2]))
	}
	return mk(name, "", IntS, nil, s)
}
func SArr(s *Term) *Term { return sliceAcc("s-arr", 0, s) }
func SOff(s *Term) *Term { return sliceAcc("s-off", 1, s) }
func SLen(s *Term) *Term { return sliceAcc("s-len", 2, s) }

// BV ops
func bvmask(w int) *big.Int {
	return new(big.Int).Sub(new(big.Int).Lsh(big.NewInt(1), uint(w)), big.NewInt(1))
}
func toSigned(v *big.Int, w int) *big.Int {
	if v.Bit(w-1) == 1 {
		return new(big.Int).Sub(v, new(big.Int).Lsh(big.NewInt(1), uint(w)))
	}
	return v
}

func BVBin(op string, a, b *Term) *Term {
	if a.S != b.S || a.S.K != KBV {
		panic(fmt.Sprintf("bv op %s sort mismatch %s %s", op, a.S, b.S))
	}
	w := a.S.W
	if a.IsLit() && b.IsLit() {
		x, y := a.Int, b.Int
		r := new(big.Int)
		switch op {
		case "bvadd":
			r.Add(x, y)
		case "bvsub":
			r.Sub(x, y)
		case "bvmul":
			r.Mul(x, y)
		case "bvand":
			r.And(x, y)
		case "bvor":
			r.Or(x, y)
		case "bvxor":
			r.Xor(x, y)
		case "bvshl":
			if y.Cmp(big.NewInt(int64(w))) >= 0 {
				r.SetInt64(0)
			} else {
				r.Lsh(x, uint(y.Int64()))
			}
		case "bvlshr":
			if y.Cmp(big.NewInt(int64(w))) >= 0 {
				r.SetInt64(0)
			} else {
				r.Rsh(x, uint(y.Int64()))
			}
		case "bvashr":
			sx := toSigned(x, w)
			sh := uint(w)
			if y.Cmp(big.NewInt(int64(w))) < 0 {
				sh = uint(y.Int64())
			}
			r.Rsh(sx, sh)
		case "bvudiv":
			if y.Sign() == 0 {
				return mk(op, "", a.S, nil, a, b)
			}
			r.Div(x, y)
		case "bvurem":
			if y.Sign() == 0 {
				return mk(op, "", a.S, nil, a, b)
			}
			r.Mod(x, y)
		default:
			return mk(op, "", a.S, nil, a, b)
		}
		return BVLit(r, w)
	}
	switch op {
	case "bvor", "bvxor", "bvadd":
		if a.IsLit() && a.Int.Sign() == 0 {
			return b
		}
		if b.IsLit() && b.Int.Sign() == 0 {
			return a
		}
	case "bvshl", "bvlshr", "bvashr", "bvsub":
		if b.IsLit() && b.Int.Sign() == 0 {
			return a
		}
	case "bvand":
		if (a.IsLit() && a.Int.Sign() == 0) || (b.IsLit() && b.Int.Sign() == 0) {
			return BVLit(big.NewInt(0), w)
		}
		if b.IsLit() && b.Int.Cmp(bvmask(w)) == 0 {
			return a
		}
		if a.IsLit() && a.Int.Cmp(bvmask(w)) == 0 {
			return b
		}
	}
	return mk(op, "", a.S, nil, a, b)
}

func BVCmp(op string, a, b *Term) *Term {
	if a.S != b.S || a.S.K != KBV {
		panic("bvcmp sort mismatch")
	}
	if a.IsLit() && b.IsLit() {
		x, y := a.Int, b.Int
		if strings.HasPrefix(op, "bvs") {
			x, y = toSigned(x, a.S.W), toSigned(y, a.S.W)
		}
		c := x.Cmp(y)
		switch op {
		case "bvult", "bvslt":
			return BoolLit(c < 0)
		case "bvule", "bvsle":
			return BoolLit(c <= 0)
		case "bvugt", "bvsgt":
			return BoolLit(c > 0)
		case "bvuge", "bvsge":
			return BoolLit(c >= 0)
		}
	}
	return mk(op, "", BoolS, nil, a, b)
}

func BVNot(a *Term) *Term {
	if a.IsLit() {
		return BVLit(new(big.Int).Xor(a.Int, bvmask(a.S.W)), a.S.W)
	}
	return mk("bvnot", "", a.S, nil, a)
}
func BVNeg(a *Term) *Term {
	if a.IsLit() {
		return BVLit(new(big.Int).Neg(a.Int), a.S.W)
	}
	return mk("bvneg", "", a.S, nil, a)
}

// BVResize converts a to width w; signed selects sign extension when widening.
func BVResize(a *Term, w int, signed bool) *Term {
	aw := a.S.W
	if aw == w {
		return a
	}
	if a.IsLit() {
		v := a.Int
		if signed {
			v = toSigned(v, aw)
		}
		return BVLit(v, w)
	}
	if w < aw {
		return mk(fmt.Sprintf("(_ extract %d 0)", w-1), "", BVS(w), nil, a)
	}
	if signed {
		return mk(fmt.Sprintf("(_ sign_extend %d)", w-aw), "", BVS(w), nil, a)
	}
	return mk(fmt.Sprintf("(_ zero_extend %d)", w-aw), "", BVS(w), nil, a)
}

func BV2Int(a *Term, signed bool) *Term {
	if a.IsLit() {
		v := a.Int
		if signed {
			v = toSigned(v, a.S.W)
		}
		return IntLitB(v)
	}
	u := mk("bv2nat", "", IntS, nil, a)
	if !signed {
		return u
	}
	half := new(big.Int).Lsh(big.NewInt(1), uint(a.S.W-1))
	full := new(big.Int).Lsh(big.NewInt(1), uint(a.S.W))
	return Ite(Lt(u, IntLitB(half)), u, Sub(u, IntLitB(full)))
}
func Int2BV(a *Term, w int) *Term {
	if a.IsLit() {
		return BVLit(a.Int, w)
	}
	if a.Op == "bv2nat" && a.Args[0].S.W == w {
		return a.Args[0]
	}
	return mk(fmt.Sprintf("(_ int2bv %d)", w), "", BVS(w), nil, a)
}

func Forall(vars []*Term, body *Term, pats ...*Term) *Term {
	if body == True {
		return True
	}
	args := append([]*Term{}, vars...)
	args = append(args, body)
	t := mk(fmt.Sprintf("forall/%d/%d", len(vars), len(pats)), "", BoolS, nil, append(args, pats...)...)
	return t
}

// ---------- printing ----------

func (t *Term) SMT() string {
	var b strings.Builder
	t.write(&b)
	return b.String()
}

func smtName(n string) string {
	for _, c := range n {
		if !(c >= 'a' && c <= 'z' || c >= 'A' && c <= 'Z' || c >= '0' && c <= '9' || c == '_' || c == '.' || c == '!' || c == '$') {
			return "|" + n + "|"
		}
	}
	return n
}

func (t *Term) write(b *strings.Builder) {
	switch {
	case t.Op == "lit":
		switch t.S.K {
		case KBool:
			if t.Int.Sign() != 0 {
				b.WriteString("true")
			} else {
				b.WriteString("false")
			}
		case KInt:
			if t.Int.Sign() < 0 {
				b.WriteString("(- ")
				b.WriteString(new(big.Int).Neg(t.Int).String())
				b.WriteString(")")
			} else {
				b.WriteString(t.Int.String())
			}
		case KBV:
			fmt.Fprintf(b, "(_ bv%s %d)", t.Int.String(), t.S.W)
		}
	case t.Op == "var":
		b.WriteString(smtName(t.Name))
	case t.Op == "const-array":
		fmt.Fprintf(b, "((as const %s) ", t.S)
		t.Args[0].write(b)
		b.WriteString(")")
	case strings.HasPrefix(t.Op, "forall/"):
		var nv, np int
		fmt.Sscanf(t.Op, "forall/%d/%d", &nv, &np)
		b.WriteString("(forall (")
		for i := 0; i < nv; i++ {
			fmt.Fprintf(b, "(%s %s)", smtName(t.Args[i].Name), t.Args[i].S)
		}
		b.WriteString(") ")
		if np > 0 {
			b.WriteString("(! ")
		}
		t.Args[nv].write(b)
		if np > 0 {
			for _, p := range t.Args[nv+1:] {
				b.WriteString(" :pattern (")
				if p.Op == "mpat" {
					for i, a := range p.Args {
						if i > 0 {
							b.WriteString(" ")
						}
						a.write(b)
					}
				} else {
					p.write(b)
				}
				b.WriteString(")")
			}
			b.WriteString(")")
		}
		b.WriteString(")")
	default:
		if len(t.Args) == 0 {
			b.WriteString(t.Op)
			return
		}
		b.WriteString("(")
		b.WriteString(t.Op)
		for _, a := range t.Args {
			b.WriteString(" ")
			a.write(b)
		}
		b.WriteString(")")
	}
}

// FreeVars collects free variable terms and applied function symbols.
func (t *Term) collect(vars map[*Term]bool, funs map[string]bool, seen map[*Term]bool, bound map[*Term]int) {
	if seen[t] && len(bound) == 0 {
		return
	}
	seen[t] = true
	switch {
	case t.Op == "lit":
	case t.Op == "var":
		if bound[t] == 0 {
			vars[t] = true
		}
	case strings.HasPrefix(t.Op, "forall/"):
		var nv, np int
		fmt.Sscanf(t.Op, "forall/%d/%d", &nv, &np)
		for i := 0; i < nv; i++ {
			bound[t.Args[i]]++
		}
		// do not use seen-cache under binders
		sub := map[*Term]bool{}
		for _, a := range t.Args[nv:] {
			a.collect(vars, funs, sub, bound)
		}
		for i := 0; i < nv; i++ {
			bound[t.Args[i]]--
			if bound[t.Args[i]] == 0 {
				delete(bound, t.Args[i])
			}
		}
	default:
		funs[t.Op] = true
		for _, a := range t.Args {
			a.collect(vars, funs, seen, bound)
		}
	}
}

// Subst replaces variables according to m (simultaneously). Rebuilds through
// the simplifying constructors where cheap.
func Subst(t *Term, m map[*Term]*Term) *Term {
	cache := map[*Term]*Term{}
	var rec func(t *Term) *Term
	rec = func(t *Term) *Term {
		if r, ok := cache[t]; ok {
			return r
		}
		var r *Term
		switch {
		case t.Op == "lit":
			r = t
		case t.Op == "var":
			if x, ok := m[t]; ok {
				r = x
			} else {
				r = t
			}
		default:
			args := make([]*Term, len(t.Args))
			ch := false
			for i, a := range t.Args {
				args[i] = rec(a)
				if args[i] != a {
					ch = true
				}
			}
			if !ch {
				r = t
			} else {
				r = rebuild(t, args)
			}
		}
		cache[t] = r
		return r
	}
	return rec(t)
}

func rebuild(t *Term, args []*Term) *Term {
	switch t.Op {
	case "not":
		return Not(args[0])
	case "and":
		return And(args...)
	case "or":
		return Or(args...)
	case "=>":
		return Implies(args[0], args[1])
	case "ite":
		return Ite(args[0], args[1], args[2])
	case "=":
		return Eq(args[0], args[1])
	case "<", "<=", ">", ">=":
		return Cmp(t.Op, args[0], args[1])
	case "+":
		if len(args) == 2 {
			return Add(args[0], args[1])
		}
	case "-":
		if len(args) == 2 {
			return Sub(args[0], args[1])
		}
		return NegT(args[0])
	case "*":
		if len(args) == 2 {
			return Mul(args[0], args[1])
		}
	case "div":
		return DivE(args[0], args[1])
	case "mod":
		return ModE(args[0], args[1])
	case "select":
		return Select(args[0], args[1])
	case "store":
		return Store(args[0], args[1], args[2])
	case "s-arr":
		return SArr(args[0])
	case "s-off":
		return SOff(args[0])
	case "s-len":
		return SLen(args[0])
	case "s-cap":
		return SCap(args[0])
	case "mk-slice":
		return MkSliceC(args[0], args[1], args[2], args[3])
	}
	if strings.HasPrefix(t.Op, "bv") && len(args) == 2 && t.S.K == KBV {
		return BVBin(t.Op, args[0], args[1])
	}
	return mk(t.Op, t.Name, t.S, t.Int, args...)
}

func sortedKeys[M ~map[string]V, V any](m M) []string {
	ks := make([]string, 0, len(m))
	for k := range m {
		ks = append(ks, k)
	}
	sort.Strings(ks)
	return ks
}

// Replace substitutes arbitrary subterms (by identity) according to m.
func Replace(t *Term, m map[*Term]*Term) *Term {
	cache := map[*Term]*Term{}
	var rec func(t *Term) *Term
	rec = func(t *Term) *Term {
		if r, ok := m[t]; ok {
			return r
		}
		if r, ok := cache[t]; ok {
			return r
		}
		r := t
		if len(t.Args) > 0 {
			args := make([]*Term, len(t.Args))
			ch := false
			for i, a := range t.Args {
				args[i] = rec(a)
				ch = ch || args[i] != a
			}
			if ch {
				r = rebuild(t, args)
			}
		}
		cache[t] = r
		return r
	}
	return rec(t)
}
