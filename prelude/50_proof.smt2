; Sigma-protocol proof framework (package proof).
; vok[p][c] : predicate object p has been verified successfully under the challenge object c
; ghost vok (Array Int Bool)
; rok[p][c] : predicate object p has produced its responses under the challenge object c
; ghost rok (Array Int Bool)
; left-fold sum of the scalars referenced by a slice of scalar references
(declare-fun ssumR ((Array Int S) (Array Int Int) Int Int) S)
(assert (forall ((sv (Array Int S)) (el (Array Int Int)) (o Int) (n Int))
  (! (=> (<= n 0) (= (ssumR sv el o n) szero)) :pattern ((ssumR sv el o n)))))
(assert (forall ((sv (Array Int S)) (el (Array Int Int)) (o Int) (n Int))
  (! (=> (> n 0) (= (ssumR sv el o n) (sadd (ssumR sv el o (- n 1)) (select sv (select el (+ o (- n 1)))))))
     :pattern ((ssumR sv el o n)))))
; ssubFold(init, ...) = init - x_0 - x_1 - ... (left to right, in program order) leaving out index `skip`
(declare-fun ssubFold (S (Array Int S) (Array Int Int) Int Int Int) S)
(assert (forall ((init S) (sv (Array Int S)) (el (Array Int Int)) (o Int) (n Int) (k Int))
  (! (=> (<= n 0) (= (ssubFold init sv el o n k) init)) :pattern ((ssubFold init sv el o n k)))))
(assert (forall ((init S) (sv (Array Int S)) (el (Array Int Int)) (o Int) (n Int) (k Int))
  (! (=> (> n 0) (= (ssubFold init sv el o n k)
        (ite (= (- n 1) k) (ssubFold init sv el o (- n 1) k)
             (ssub (ssubFold init sv el o (- n 1) k) (select sv (select el (+ o (- n 1))))))))
     :pattern ((ssubFold init sv el o n k)))))
; lookup in a Go map (absent key -> zero value)
(define-fun mapgetI ((d (Array Str Bool)) (v (Array Str Int)) (k Str)) Int (ite (select d k) (select v k) 0))
; repAcc(init, ...) = init + sum_{i<n} sv[ r[ sidx[T[i].S] ] ] * P(pm[T[i].B])   (left fold, in program order)
;   TS, TB  : the S and B fields of the term vector;  (sd, sx) : the variable-index map;
;   (rel, ro): the response (or blinding) vector;      (pd, px) : the public point map
(declare-fun repAcc (G (Array Int S) (Array Int G) (Array Int Str) (Array Int Str) Int (Array Str Bool) (Array Str Int) (Array Int Int) Int (Array Str Bool) (Array Str Int) Int) G)
(assert (forall ((init G) (sv (Array Int S)) (pv (Array Int G)) (ts (Array Int Str)) (tb (Array Int Str)) (to Int) (sd (Array Str Bool)) (sx (Array Str Int)) (rel (Array Int Int)) (ro Int) (pd (Array Str Bool)) (px (Array Str Int)) (n Int))
  (! (=> (<= n 0) (= (repAcc init sv pv ts tb to sd sx rel ro pd px n) init)) :pattern ((repAcc init sv pv ts tb to sd sx rel ro pd px n)))))
(assert (forall ((init G) (sv (Array Int S)) (pv (Array Int G)) (ts (Array Int Str)) (tb (Array Int Str)) (to Int) (sd (Array Str Bool)) (sx (Array Str Int)) (rel (Array Int Int)) (ro Int) (pd (Array Str Bool)) (px (Array Str Int)) (n Int))
  (! (=> (> n 0) (= (repAcc init sv pv ts tb to sd sx rel ro pd px n)
        (gadd (repAcc init sv pv ts tb to sd sx rel ro pd px (- n 1))
              (gmul (select sv (select rel (+ ro (mapgetI sd sx (select ts (+ to (- n 1)))))))
                    (basept pv (mapgetI pd px (select tb (+ to (- n 1)))))))))
     :pattern ((repAcc init sv pv ts tb to sd sx rel ro pd px n)))))
; cok[p][w] : predicate object p has produced its commitments under the pre-challenge object w (0 = proof-obligated)
; ghost cok (Array Int Bool)
; gok[p] : the verifier has read the commitments of predicate object p
; ghost gok Bool
; ---- byte streams behind io.Reader values ----
; rdsrc[r]   : identity of the byte stream that reader object r draws from
; rdcount[r] : number of bytes consumed from it so far
; ghost rdsrc Int
; ghost rdcount Int
; streamBytes(src, from, n): the n bytes of stream src starting at position from
(declare-fun streamBytes (Int Int Int) Bytes)
; ---- pairings (abstract): e : G1 x G2 -> GT, all three groups share the sort G of abstract group elements ----
(declare-fun epair (G G) G)
; the GT group written additively like the others: gadd is its (multiplicative) operation, gneg inversion, gzero its identity
; a product a * b^-1 is the identity exactly when a = b
(assert (forall ((a G) (b G)) (! (= (= (gadd a (gneg b)) gzero) (= a b)) :pattern ((gadd a (gneg b))))))
; bilinearity consequence used by the pairing-product checks: e(-P, Q) = e(P, Q)^-1
(assert (forall ((p G) (q G)) (! (= (epair (gneg p) q) (gneg (epair p q))) :pattern ((epair (gneg p) q)))))
; eacc[e] : the product of pairings accumulated in a pairing engine object e (written additively)
; ghost eacc G
; ---- DKG status matrix: number of Complaint (= 1) entries among a set of keys of a status row ----
(declare-fun cntComplaints ((Array Int Int) (Array Int Bool)) Int)
(assert (forall ((v (Array Int Int))) (! (= (cntComplaints v ((as const (Array Int Bool)) false)) 0) :pattern ((cntComplaints v ((as const (Array Int Bool)) false))))))
(assert (forall ((v (Array Int Int)) (vis (Array Int Bool)) (k Int))
  (! (=> (not (select vis k)) (= (cntComplaints v (store vis k true)) (+ (cntComplaints v vis) (ite (= (select v k) 1) 1 0)))) :pattern ((cntComplaints v (store vis k true))))))
(assert (forall ((v (Array Int Int)) (vis (Array Int Bool))) (! (>= (cntComplaints v vis) 0) :pattern ((cntComplaints v vis)))))
; ssumIdx(sv, idx, o, n, mv) = sum_{k<n} sv[ mv[ idx[o+k] ] ]  (left fold): the sum of the scalars a map assigns to a list of keys
(declare-fun ssumIdx ((Array Int S) (Array Int Int) Int Int (Array Int Int)) S)
(assert (forall ((sv (Array Int S)) (ix (Array Int Int)) (o Int) (n Int) (mv (Array Int Int)))
  (! (=> (<= n 0) (= (ssumIdx sv ix o n mv) szero)) :pattern ((ssumIdx sv ix o n mv)))))
(assert (forall ((sv (Array Int S)) (ix (Array Int Int)) (o Int) (n Int) (mv (Array Int Int)))
  (! (=> (> n 0) (= (ssumIdx sv ix o n mv) (sadd (ssumIdx sv ix o (- n 1) mv) (select sv (select mv (select ix (+ o (- n 1))))))))
     :pattern ((ssumIdx sv ix o n mv)))))
; ---- byte-string length and XOF absorption symbols used by the Fiat-Shamir contexts ----
(declare-fun blen (Bytes) Int)
(assert (= (blen bempty) 0))
(assert (forall ((b Bytes)) (! (and (>= (blen b) 0) (= (= (blen b) 0) (= b bempty))) :pattern ((blen b)))))
(declare-fun hreseed (Bytes) Bytes)
(declare-fun habsorb (Bytes Bytes) Bytes)
; ---- ring signatures (sign/anon/sig.go) ----
; h1(pre, PG, PH): the challenge hash over the position-invariant prefix state and the two commitment points
(declare-fun h1 (Bytes G G) S)
; hashes to a group element
(declare-fun pickG (Bytes) G)
; ringFold(c0, ...)(n): the challenge after closing n links of the ring, starting from c0
;   PG_i = s_i*B + c_i*L_i,  PH_i = s_i*base + c_i*tag (gzero placeholder when unlinkable),  c_{i+1} = h1(pre, PG_i, PH_i)
(declare-fun ringFold (S (Array Int S) (Array Int G) (Array Int Int) Int (Array Int Int) Int Bytes Bool G G Int) S)
(assert (forall ((c0 S) (sv (Array Int S)) (pv (Array Int G)) (se (Array Int Int)) (so Int) (le (Array Int Int)) (lo Int) (pre Bytes) (lk Bool) (hb G) (tg G) (n Int))
  (! (=> (<= n 0) (= (ringFold c0 sv pv se so le lo pre lk hb tg n) c0)) :pattern ((ringFold c0 sv pv se so le lo pre lk hb tg n)))))
(assert (forall ((c0 S) (sv (Array Int S)) (pv (Array Int G)) (se (Array Int Int)) (so Int) (le (Array Int Int)) (lo Int) (pre Bytes) (lk Bool) (hb G) (tg G) (n Int))
  (! (=> (> n 0) (= (ringFold c0 sv pv se so le lo pre lk hb tg n)
        (h1 pre
            (gadd (gmul (select sv (select se (+ so (- n 1)))) (gbase 0))
                  (gmul (ringFold c0 sv pv se so le lo pre lk hb tg (- n 1)) (basept pv (select le (+ lo (- n 1))))))
            (ite lk (gadd (gmul (select sv (select se (+ so (- n 1)))) hb)
                          (gmul (ringFold c0 sv pv se so le lo pre lk hb tg (- n 1)) tg))
                    gzero))))
     :pattern ((ringFold c0 sv pv se so le lo pre lk hb tg n)))))
; ---- BDN signature aggregation ----
; the group element a byte slice (a header into the byte heap) decodes to
(define-fun sigOf ((bh (Array Int (Array Int (_ BitVec 8)))) (sl Slice)) G
  (decodeG (bytesval8 (select bh (s-arr sl)) (s-off sl) (s-len sl))))
; bdnSigAgg(...)(n): sum over the enabled indices i < n of c_i*sig + sig, where sig is the
; maskCount(i)-th signature of the list (signatures are consumed in the order of the enabled bits)
(declare-fun bdnSigAgg (G (Array Int S) (Array Int Int) Int (Array Int (_ BitVec 8)) Int (Array Int Slice) Int (Array Int (Array Int (_ BitVec 8))) Int) G)
(assert (forall ((a G) (sv (Array Int S)) (ce (Array Int Int)) (co Int) (m (Array Int (_ BitVec 8))) (mo Int) (se (Array Int Slice)) (so Int) (bh (Array Int (Array Int (_ BitVec 8)))) (n Int))
  (! (=> (<= n 0) (= (bdnSigAgg a sv ce co m mo se so bh n) a)) :pattern ((bdnSigAgg a sv ce co m mo se so bh n)))))
(assert (forall ((a G) (sv (Array Int S)) (ce (Array Int Int)) (co Int) (m (Array Int (_ BitVec 8))) (mo Int) (se (Array Int Slice)) (so Int) (bh (Array Int (Array Int (_ BitVec 8)))) (n Int))
  (! (=> (> n 0) (= (bdnSigAgg a sv ce co m mo se so bh n)
       (ite (maskBit m mo (- n 1))
            (gadd (bdnSigAgg a sv ce co m mo se so bh (- n 1))
                  (gadd (gmul (select sv (select ce (+ co (- n 1)))) (sigOf bh (select se (+ so (maskCount m mo (- n 1))))))
                        (sigOf bh (select se (+ so (maskCount m mo (- n 1)))))))
            (bdnSigAgg a sv ce co m mo se so bh (- n 1)))))
     :pattern ((bdnSigAgg a sv ce co m mo se so bh n)))))
; ---- BN curve membership (abstract predicates over the limb representation of the coordinates) ----
(declare-fun bnOnCurveG1 ((Array Int Int) (Array Int Int) (Array Int Int)) Bool)
(declare-fun bnOnTwistG2 ((Array Int Int) (Array Int Int) (Array Int Int) (Array Int Int) (Array Int Int) (Array Int Int)) Bool)
(declare-fun gfp2zero ((Array Int Int) (Array Int Int)) Bool)
; ---- sequence shuffle: random linear combination of NQ sequences, column i ----
; seqComb(...)(n) = e_0*P[0][i] + e_1*P[1][i] + ... + e_{n-1}*P[n-1][i]  (left fold, n >= 1 starts with the e_0 term alone)
(declare-fun seqComb ((Array Int S) (Array Int G) (Array Int Int) Int (Array Int Slice) Int (Array Int (Array Int Int)) Int Int) G)
(assert (forall ((sv (Array Int S)) (pv (Array Int G)) (ee (Array Int Int)) (eo Int) (rows (Array Int Slice)) (ro Int) (rh (Array Int (Array Int Int))) (i Int) (n Int))
  (! (=> (= n 1) (= (seqComb sv pv ee eo rows ro rh i n)
        (gmul (select sv (select ee eo)) (basept pv (select (select rh (s-arr (select rows ro))) (+ (s-off (select rows ro)) i))))))
     :pattern ((seqComb sv pv ee eo rows ro rh i n)))))
(assert (forall ((sv (Array Int S)) (pv (Array Int G)) (ee (Array Int Int)) (eo Int) (rows (Array Int Slice)) (ro Int) (rh (Array Int (Array Int Int))) (i Int) (n Int))
  (! (=> (> n 1) (= (seqComb sv pv ee eo rows ro rh i n)
        (gadd (seqComb sv pv ee eo rows ro rh i (- n 1))
              (gmul (select sv (select ee (+ eo (- n 1))))
                    (basept pv (select (select rh (s-arr (select rows (+ ro (- n 1))))) (+ (s-off (select rows (+ ro (- n 1)))) i)))))))
     :pattern ((seqComb sv pv ee eo rows ro rh i n)))))
(declare-fun vssCertified (Int) Bool)
; ---- DKG packets (share/dkg/pedersen/protocol.go: set) ----
(declare-fun pktHash (Int) Bytes) ; hash of the packet object (at the time it is pushed)
(declare-fun pktIdx (Int) Int)    ; index of its sender
