; abstract extendable-output function state
(declare-sort XState 0)
; ghost xstate XState
; ghost xorigin XState
(declare-fun xinit (Bytes) XState)
(declare-fun xabsorb (XState Bytes) XState)
(declare-fun xadv (XState Int) XState)
(declare-fun xreset (XState) XState)
(declare-fun xbyte (XState Int) (_ BitVec 8))
(declare-fun xout (XState Int) Bytes)
(assert (forall ((k Bytes)) (! (= (xreset (xinit k)) (xinit k)) :pattern ((xreset (xinit k))))))
(assert (forall ((s XState) (b Bytes)) (! (= (xreset (xabsorb s b)) (xreset s)) :pattern ((xreset (xabsorb s b))))))
(assert (forall ((s XState) (n Int)) (! (= (xreset (xadv s n)) (xreset s)) :pattern ((xreset (xadv s n))))))
(assert (forall ((s XState) (n Int) (i Int)) (! (= (xbyte (xadv s n) i) (xbyte s (+ n i))) :pattern ((xbyte (xadv s n) i)))))
(assert (forall ((s XState) (a Int) (b Int)) (! (= (xadv (xadv s a) b) (xadv s (+ a b))) :pattern ((xadv (xadv s a) b)))))
(assert (forall ((s XState)) (! (= (xadv s 0) s) :pattern ((xadv s 0)))))
; state produced by New(seed): keyed with the first `size` bytes, remainder absorbed
(define-fun seedState ((a (Array Int (_ BitVec 8))) (o Int) (n Int) (size Int)) XState
  (ite (> n size) (xabsorb (xinit (bytesval8 a o size)) (bytesval8 a (+ o size) (- n size)))
                  (xabsorb (xinit (bytesval8 a o n)) (bytesval8 ((as const (Array Int (_ BitVec 8))) #x00) 0 0))))
