// place in: pairing/bn256/
// run with: go test -race -vet=off -count=1 -run TestSeedC20SharedG1Marshal ./pairing/bn256/

//go:build !constantTime

package bn256

import (
	"bytes"
	"sync"
	"testing"

	"go.dedis.ch/kyber/v4/util/random"
)

// A G1 public key that is the *result of arithmetic* (Mul/Add) is held in
// Jacobian coordinates with z != 1. Encoding / comparing such a shared key
// from several goroutines is a read-only use and must neither write to the
// key nor race.
func TestSeedC20SharedG1Marshal(t *testing.T) {
	suite := NewSuite()

	// Part 1 (deterministic): MarshalBinary must leave the receiver's
	// internal representation untouched.
	{
		s := suite.G1().Scalar().Pick(random.New())
		P := suite.G1().Point().Mul(s, nil).(*pointG1)
		before := *P.g
		if _, err := P.MarshalBinary(); err != nil {
			t.Fatal(err)
		}
		if *P.g != before {
			t.Errorf("MarshalBinary modified the shared point's representation")
		}
	}

	// Part 2 (schedules, needs -race): many goroutines encode, compare and
	// use as an operand the same shared non-affine key.
	for rep := 0; rep < 10; rep++ {
		s := suite.G1().Scalar().Pick(random.New())
		P := suite.G1().Point().Mul(s, nil)
		want, err := P.Clone().MarshalBinary()
		if err != nil {
			t.Fatal(err)
		}
		Q := P.Clone()

		var wg sync.WaitGroup
		errs := make(chan string, 64)
		for g := 0; g < 8; g++ {
			wg.Add(1)
			go func(g int) {
				defer wg.Done()
				switch g % 3 {
				case 0:
					got, err := P.MarshalBinary()
					if err != nil || !bytes.Equal(got, want) {
						errs <- "MarshalBinary result differs from sequential result"
					}
				case 1:
					if !P.Equal(Q) {
						errs <- "Equal result differs from sequential result"
					}
				case 2:
					// P used only as an operand; result written elsewhere.
					R := suite.G1().Point().Add(P, P)
					_ = R
				}
			}(g)
		}
		wg.Wait()
		close(errs)
		for e := range errs {
			t.Error(e)
		}
	}
}
