package vss

import (
	"testing"

	"go.dedis.ch/kyber/v4"
	"go.dedis.ch/kyber/v4/group/edwards25519"
	"go.dedis.ch/kyber/v4/share"
	"go.dedis.ch/kyber/v4/sign/schnorr"
)

// TestDemoC10M3PaddedCommitmentsJustification: a dealer hands verifier 1 a
// share that is not on the committed polynomial, gets the complaint, and
// answers with a justification whose deal repeats the recorded commitments and
// appends one extra coefficient chosen so that the bogus share verifies against
// the padded list. Such a justification does not open the committed polynomial:
// it must be refused, the dealer must be marked bad, and the deal must not be
// certified.
func TestDemoC10M3PaddedCommitmentsJustification(t *testing.T) {
	st := edwards25519.NewBlakeSHA256Ed25519()
	const n = 5
	const thr = uint32(3)
	const bad = 1 // verifier receiving the inconsistent share

	secs := make([]kyber.Scalar, n)
	pubs := make([]kyber.Point, n)
	for i := range secs {
		secs[i] = st.Scalar().Pick(st.RandomStream())
		pubs[i] = st.Point().Mul(secs[i], nil)
	}
	dealerSec := st.Scalar().Pick(st.RandomStream())
	dealerPub := st.Point().Mul(dealerSec, nil)
	secret := st.Scalar().Pick(st.RandomStream())

	dealer, err := NewDealer(st, dealerSec, secret, pubs, thr)
	if err != nil {
		t.Fatal(err)
	}
	verifiers := make([]*Verifier, n)
	for i := range verifiers {
		if verifiers[i], err = NewVerifier(st, secs[i], dealerPub, pubs); err != nil {
			t.Fatal(err)
		}
	}

	// the dealer cheats on the share of verifier `bad`
	pd, err := dealer.PlaintextDeal(bad)
	if err != nil {
		t.Fatal(err)
	}
	bogus := st.Scalar().Pick(st.RandomStream())
	pd.SecShare = &share.PriShare{I: bad, V: bogus}

	encDeals, err := dealer.EncryptedDeals()
	if err != nil {
		t.Fatal(err)
	}
	resps := make([]*Response, n)
	for i, v := range verifiers {
		if resps[i], err = v.ProcessEncryptedDeal(encDeals[i]); err != nil {
			t.Fatal(err)
		}
		if want := i != bad; resps[i].StatusApproved != want {
			t.Fatalf("verifier %d: approved=%v, want %v", i, resps[i].StatusApproved, want)
		}
	}
	for i, r := range resps {
		for k, v := range verifiers {
			if k == i {
				continue
			}
			// every recipient gets its own copy, as over a network
			rc := *r
			if err = v.ProcessResponse(&rc); err != nil {
				t.Fatal(err)
			}
		}
		rc := *r
		if _, err = dealer.ProcessResponse(&rc); err != nil {
			t.Fatal(err)
		}
	}

	// forged justification: recorded commitments + one extra coefficient E with
	//   sum_k C_k x^k + E x^thr = bogus*G   at x = bad+1
	commits := dealer.Commits()
	onPoly := share.NewPubPoly(st, nil, commits).Eval(bad).V
	x := st.Scalar().SetInt64(int64(bad + 1))
	xt := st.Scalar().One()
	for k := uint32(0); k < thr; k++ {
		xt = st.Scalar().Mul(xt, x)
	}
	diff := st.Point().Sub(st.Point().Mul(bogus, nil), onPoly)
	extra := st.Point().Mul(st.Scalar().Inv(xt), diff)
	padded := append(append([]kyber.Point{}, commits...), extra)

	j := &Justification{
		SessionID: dealer.SessionID(),
		Index:     bad,
		Deal: &Deal{
			SessionID:   dealer.SessionID(),
			SecShare:    &share.PriShare{I: bad, V: bogus},
			T:           thr,
			Commitments: padded,
		},
	}
	if j.Signature, err = schnorr.Sign(st, dealerSec, j.Hash(st)); err != nil {
		t.Fatal(err)
	}

	for i, v := range verifiers {
		if err := v.ProcessJustification(j); err == nil {
			t.Errorf("verifier %d accepted a justification that does not open the recorded commitments", i)
		}
		if v.DealCertified() {
			t.Errorf("verifier %d reports the deal certified although the complaint was never correctly justified", i)
		}
	}

	// consequence: the "certified" deals of verifiers 0..2 do not give the secret back
	var deals []*Deal
	for _, v := range verifiers[:thr] {
		if d := v.Deal(); d != nil {
			deals = append(deals, d)
		}
	}
	if uint32(len(deals)) == thr {
		rec, err := RecoverSecret(st, deals, n, thr)
		if err != nil || !rec.Equal(secret) {
			t.Errorf("t certified deals do not reconstruct the dealer's secret (err=%v)", err)
		}
	}
}
