// place in: proof/
package proof

import (
	"testing"

	"go.dedis.ch/kyber/v4"
	"go.dedis.ch/kyber/v4/group/edwards25519"
	"go.dedis.ch/kyber/v4/xof/blake2xb"
)

// Soundness of And-predicates: every conjunct must hold, not only the last
// one. The prover is given a wrong secret for a variable that occurs only in a
// non-final And-term; the verifier must not accept. Likewise a valid proof
// must be rejected once the response of such a variable is altered, or when it
// is checked against a different public point for that term.
func TestDemoC14AndRejectsFalseNonFinalTerm(t *testing.T) {
	rand := blake2xb.New([]byte("c14-m2"))
	suite := edwards25519.NewBlakeSHA256Ed25519WithRand(rand)

	B := suite.Point().Base()
	x := suite.Scalar().Pick(rand)
	y := suite.Scalar().Pick(rand)
	z := suite.Scalar().Pick(rand)
	X := suite.Point().Mul(x, nil)
	Y := suite.Point().Mul(y, nil)
	Z := suite.Point().Mul(z, nil)
	W := suite.Point().Pick(rand) // nobody knows its discrete log
	pval := map[string]kyber.Point{"B": B, "X": X, "Y": Y, "Z": Z, "W": W}
	good := map[string]kyber.Scalar{"x": x, "y": y, "z": z}
	badx := map[string]kyber.Scalar{"x": suite.Scalar().Pick(rand), "y": y, "z": z}

	// 1. plain And, first conjunct falsified
	and := And(Rep("X", "x", "B"), Rep("Y", "y", "B"), Rep("Z", "z", "B"))
	prf, err := HashProve(suite, "C14", and.Prover(suite, badx, pval, nil))
	if err != nil {
		t.Fatal(err)
	}
	if HashVerify(suite, "C14", and.Verifier(suite, pval), prf) == nil {
		t.Error("And: proof made with a wrong secret for the first conjunct was accepted")
	}

	// 2. Or-of-And, proven branch is the second one, its first conjunct falsified
	or := Or(Rep("W", "w", "B"), And(Rep("X", "x", "B"), Rep("Y", "y", "B")))
	choice := map[Predicate]int{or: 1}
	prf, err = HashProve(suite, "C14", or.Prover(suite, badx, pval, choice))
	if err != nil {
		t.Fatal(err)
	}
	if HashVerify(suite, "C14", or.Verifier(suite, pval), prf) == nil {
		t.Error("Or-of-And: proof made with a wrong secret in the claimed branch was accepted")
	}

	// 3. a valid proof stays valid, but is rejected after altering the response for x
	prf, err = HashProve(suite, "C14", and.Prover(suite, good, pval, nil))
	if err != nil {
		t.Fatal(err)
	}
	if err := HashVerify(suite, "C14", and.Verifier(suite, pval), prf); err != nil {
		t.Fatalf("valid And proof rejected: %v", err)
	}
	// layout: V_X | V_Y | V_Z | r_x | r_y | r_z
	alt := append([]byte{}, prf...)
	alt[3*suite.PointLen()] ^= 1
	if HashVerify(suite, "C14", and.Verifier(suite, pval), alt) == nil {
		t.Error("And: proof with an altered response was accepted")
	}

	// 4. ... and when checked against a different public point X
	other := map[string]kyber.Point{"B": B, "X": W, "Y": Y, "Z": Z}
	if HashVerify(suite, "C14", and.Verifier(suite, other), prf) == nil {
		t.Error("And: proof accepted against a different public point")
	}
}
