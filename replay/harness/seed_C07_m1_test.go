// place in: share/
package share

import (
	"testing"

	"github.com/stretchr/testify/require"
	"go.dedis.ch/kyber/v4"
	"go.dedis.ch/kyber/v4/group/edwards25519"
)

// A sharing of the secret 0 with threshold 1 is the constant zero polynomial:
// every public share is the neutral element, and any single one of them must
// still reconstruct the (neutral) public commitment.
func TestDemoC07RecoverCommitZeroSecret(t *testing.T) {
	g := edwards25519.NewBlakeSHA256Ed25519()
	n, thr := uint32(4), uint32(1)
	pri := NewPriPoly(g, thr, g.Scalar().Zero(), g.RandomStream())
	pub := pri.Commit(nil)
	shares := pub.Shares(n)

	got, err := RecoverCommit(g, shares, thr, n)
	require.NoError(t, err)
	require.True(t, got.Equal(pub.Commit()))

	pp, err := RecoverPubPoly(g, shares, thr, n)
	require.NoError(t, err)
	require.True(t, pub.Equal(pp))
}

// A polynomial that has a root at one of the share abscissae: p(x) = s - (s/2) x
// vanishes at x = 2, i.e. at share index 1. With t = n = 2 both shares are needed.
func TestDemoC07RecoverCommitRootAtShareIndex(t *testing.T) {
	g := edwards25519.NewBlakeSHA256Ed25519()
	n, thr := uint32(2), uint32(2)
	s := g.Scalar().Pick(g.RandomStream())
	a1 := g.Scalar().Neg(g.Scalar().Div(s, g.Scalar().SetInt64(2)))
	pri := CoefficientsToPriPoly(g, []kyber.Scalar{s, a1})
	require.True(t, pri.Eval(1).V.Equal(g.Scalar().Zero()))

	base := g.Point().Pick(g.RandomStream())
	pub := pri.Commit(base)
	shares := pub.Shares(n)

	got, err := RecoverCommit(g, shares, thr, n)
	require.NoError(t, err)
	require.True(t, got.Equal(g.Point().Mul(s, base)))
}
