// place in: share/pvss/
package pvss

import (
	"testing"

	"github.com/stretchr/testify/require"
	"go.dedis.ch/kyber/v4"
	"go.dedis.ch/kyber/v4/group/edwards25519"
	"go.dedis.ch/kyber/v4/group/p256"
	"go.dedis.ch/kyber/v4/share"
)

func demoC13Suites() map[string]Suite {
	return map[string]Suite{
		"ed25519": edwards25519.NewBlakeSHA256Ed25519(),
		"p256":    p256.NewBlakeSHA256P256(),
	}
}

func demoC13Keys(suite Suite, n uint32) ([]kyber.Scalar, []kyber.Point) {
	x := make([]kyber.Scalar, n)
	X := make([]kyber.Point, n)
	for i := range x {
		x[i] = suite.Scalar().Pick(suite.RandomStream())
		X[i] = suite.Point().Mul(x[i], nil)
	}
	return x, X
}

// A cheating dealer hands trustee j (j > 0) an encrypted share that does NOT
// encrypt p(j): its proof is simulated backwards from a challenge of the
// dealer's own choosing, so its P.C differs from the global challenge that
// binds all shares and commitments of the dealing. Every other share is
// honest. VerifyEncShareBatch must keep the n-1 honest shares and drop the
// forged one together with trustee j's key.
func TestDemoC13ForgedEncShareIsFilteredFromBatch(test *testing.T) {
	for name, suite := range demoC13Suites() {
		test.Run(name, func(test *testing.T) {
			n, t := uint32(6), uint32(4)
			j := uint32(3) // the cheated trustee
			rand := suite.RandomStream()
			H := suite.Point().Pick(suite.XOF([]byte("H")))
			_, X := demoC13Keys(suite, n)

			secret := suite.Scalar().Pick(rand)
			priPoly := share.NewPriPoly(suite, t, secret, rand)
			pubPoly := priPoly.Commit(H)
			priShares := priPoly.Shares(n)

			sH := make([]kyber.Point, n)
			v := make([]kyber.Scalar, n)
			encShares := make([]*PubVerShare, n)
			for i := range n {
				sH[i] = pubPoly.Eval(i).V
				v[i] = suite.Scalar().Pick(rand)
				encShares[i] = &PubVerShare{}
				encShares[i].S = share.PubShare{I: i, V: suite.Point().Mul(priShares[i].V, X[i])}
				encShares[i].P.VG = suite.Point().Mul(v[i], H)
				encShares[i].P.VH = suite.Point().Mul(v[i], X[i])
			}

			// Forged share for trustee j: bogus value, simulated proof.
			bogus := suite.Point().Pick(rand)
			cj := suite.Scalar().Pick(rand)
			rj := suite.Scalar().Pick(rand)
			encShares[j].S.V = bogus
			encShares[j].P.VG = suite.Point().Add(suite.Point().Mul(rj, H), suite.Point().Mul(cj, sH[j]))
			encShares[j].P.VH = suite.Point().Add(suite.Point().Mul(rj, X[j]), suite.Point().Mul(cj, bogus))

			// Global challenge over everything the dealer publishes, then the
			// honest responses r_i = v_i - c*s_i.
			c, err := computeGlobalChallenge(suite, n, pubPoly, encShares)
			require.NoError(test, err)
			for i := range n {
				if i == j {
					encShares[i].P.C = cj
					encShares[i].P.R = rj
					continue
				}
				encShares[i].P.C = c.Clone()
				encShares[i].P.R = suite.Scalar().Sub(v[i], suite.Scalar().Mul(c, priShares[i].V))
			}

			// Sanity: single-share verification accepts exactly the honest ones.
			for i := range n {
				err := VerifyEncShare(suite, H, X[i], sH[i], c, encShares[i])
				if i == j {
					require.ErrorIs(test, err, ErrGlobalChallengeVerification)
				} else {
					require.NoError(test, err, "honest share %d", i)
				}
			}

			K, E, err := VerifyEncShareBatch(suite, H, X, sH, pubPoly, encShares)
			require.NoError(test, err)
			for _, e := range E {
				require.NotSame(test, encShares[j], e, "forged share for trustee %d passed batch verification", j)
			}
			for _, k := range K {
				require.False(test, k.Equal(X[j]), "key of cheated trustee %d reported as good", j)
			}
			require.Len(test, E, int(n)-1)
			require.Len(test, K, int(n)-1)
		})
	}
}

// Single-field alteration: only the challenge of share 0 is changed. Share 0
// must be excluded, every other (untouched, honest) share must still verify.
func TestDemoC13AlteredChallengeOnlyExcludesThatShare(test *testing.T) {
	for name, suite := range demoC13Suites() {
		test.Run(name, func(test *testing.T) {
			n, t := uint32(5), uint32(3)
			H := suite.Point().Pick(suite.XOF([]byte("H")))
			_, X := demoC13Keys(suite, n)
			secret := suite.Scalar().Pick(suite.RandomStream())

			encShares, pubPoly, err := EncShares(suite, H, X, secret, t)
			require.NoError(test, err)
			sH := make([]kyber.Point, n)
			for i := range n {
				sH[i] = pubPoly.Eval(encShares[i].S.I).V
			}

			// fresh scalar: the honest proofs of a dealing share one C object
			encShares[0].P.C = suite.Scalar().Add(encShares[0].P.C, suite.Scalar().One())

			K, E, err := VerifyEncShareBatch(suite, H, X, sH, pubPoly, encShares)
			require.NoError(test, err)
			require.Len(test, E, int(n)-1)
			require.Len(test, K, int(n)-1)
			for i, e := range E {
				require.Same(test, encShares[i+1], e)
				require.True(test, K[i].Equal(X[i+1]))
			}
		})
	}
}
