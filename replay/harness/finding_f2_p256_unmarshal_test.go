package p256

// Replay for obligation group/p256.curvePoint.UnmarshalBinary::ensures:member (property C04):
// decoding never checks that (x, y) is on the curve; (1,1) is accepted and the next Add panics
// inside crypto/elliptic.

import (
	"testing"
)

func TestGocvReplayF2(t *testing.T) {
	g := new(p256)
	g.Init()
	n := g.PointLen()
	buf := make([]byte, n)
	buf[0] = 4
	buf[(n-1)/2] = 1 // x = 1
	buf[n-1] = 1     // y = 1
	P := g.Point()
	if err := P.UnmarshalBinary(buf); err != nil {
		return // rejected: property holds on this input
	}
	defer func() {
		if r := recover(); r != nil {
			t.Fatalf("REPRODUCED: (1,1) was accepted as a P-256 point and a later Add panicked: %v", r)
		}
	}()
	Q := g.Point().Add(P, g.Point().Base())
	_ = Q
	t.Fatalf("REPRODUCED: the off-curve point (1,1) was accepted by UnmarshalBinary")
}
