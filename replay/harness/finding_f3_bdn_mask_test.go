//go:build !constantTime

package bdn

// Replay for obligations sign/bdn.NewMask::ensures:invariant@ret1 / ::ensures:terms_nonnil@ret1
// (property C09: "however the mask object was constructed"): a mask built with the caller's own
// key (myKey != nil) lacks the coefficient and term tables, so aggregating with it panics.

import (
	"testing"

	"go.dedis.ch/kyber/v4"
	"go.dedis.ch/kyber/v4/pairing/bn256"
	"go.dedis.ch/kyber/v4/util/random"
)

func TestGocvReplayF3(t *testing.T) {
	suite := bn256.NewSuite()
	scheme := NewSchemeOnG1(suite)
	msg := []byte("gocv replay F3")
	var privs []kyber.Scalar
	var pubs []kyber.Point
	for i := 0; i < 3; i++ {
		x, X := scheme.NewKeyPair(random.New())
		privs = append(privs, x)
		pubs = append(pubs, X)
	}
	mask, err := NewMask(suite.G2(), pubs, pubs[1])
	if err != nil {
		t.Skip("setup failed: ", err)
	}
	sig, err := scheme.Sign(privs[1], msg)
	if err != nil {
		t.Skip("setup failed: ", err)
	}
	defer func() {
		if r := recover(); r != nil {
			t.Fatalf("REPRODUCED: aggregation with a mask constructed from the signer's own key panics: %v", r)
		}
	}()
	aggSig, err := scheme.AggregateSignatures([][]byte{sig}, mask)
	if err != nil {
		t.Fatalf("REPRODUCED: AggregateSignatures failed on own-key mask: %v", err)
	}
	aggKey, err := scheme.AggregatePublicKeys(mask)
	if err != nil {
		t.Fatalf("REPRODUCED: AggregatePublicKeys failed on own-key mask: %v", err)
	}
	sb, _ := aggSig.MarshalBinary()
	if err := scheme.Verify(aggKey, msg, sb); err != nil {
		t.Fatalf("REPRODUCED: aggregate over own-key mask does not verify: %v", err)
	}
}
