package anon

import (
	"bytes"
	"testing"

	"go.dedis.ch/kyber/v4"
	"go.dedis.ch/kyber/v4/group/edwards25519"
)

// TestDemoC16M3TagAndBodyTamper checks that an anonymous-set ciphertext whose
// authentication tag or body has been altered is rejected by Decrypt instead
// of being accepted (possibly with a different plaintext).
func TestDemoC16M3TagAndBodyTamper(t *testing.T) {
	suite := edwards25519.NewBlakeSHA256Ed25519()

	X := make([]kyber.Point, 3)
	for i := range X {
		X[i] = suite.Point().Pick(suite.RandomStream())
	}
	mine := 1
	x := suite.Scalar().Pick(suite.RandomStream())
	X[mine] = suite.Point().Mul(x, nil)

	msg := []byte("pay 100 coins to account 0001")
	ct, err := Encrypt(suite, msg, X)
	if err != nil {
		t.Fatal(err)
	}

	// sanity: the untouched ciphertext round-trips (Decrypt works on a copy,
	// it may scribble on its input)
	got, err := Decrypt(suite, append([]byte(nil), ct...), X, mine, x)
	if err != nil || !bytes.Equal(got, msg) {
		t.Fatalf("round trip failed: %v", err)
	}

	hdrlen := suite.PointLen() + suite.ScalarLen()*len(X)
	msghi := len(ct) - 16

	// 1. every single altered tag byte must be rejected
	for i := msghi; i < len(ct); i++ {
		bad := append([]byte(nil), ct...)
		bad[i] ^= 0x01
		if m, err := Decrypt(suite, bad, X, mine, x); err == nil {
			t.Errorf("ciphertext with altered tag byte %d accepted, plaintext %q", i-msghi, m)
		}
	}

	// 2. an altered body under the original tag must be rejected; with a
	// 128-bit tag none of these few thousand attempts can succeed
	for i := hdrlen; i < msghi; i++ {
		for d := 1; d < 256; d++ {
			bad := append([]byte(nil), ct...)
			bad[i] ^= byte(d)
			m, err := Decrypt(suite, bad, X, mine, x)
			if err == nil {
				t.Fatalf("ciphertext with altered body accepted: got plaintext %q, sent %q", m, msg)
			}
		}
	}

	// 3. truncating the tag must be rejected as well
	if m, err := Decrypt(suite, append([]byte(nil), ct[:len(ct)-1]...), X, mine, x); err == nil {
		t.Errorf("ciphertext with truncated tag accepted, plaintext %q", m)
	}
}
