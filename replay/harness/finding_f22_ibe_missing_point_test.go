package ibe

// Replay of finding F22 (C16, IBE): the three decryption functions hand the ephemeral point of the
// ciphertext to the pairing without checking that it is there; a ciphertext taken from the network
// whose point is missing makes decryption panic instead of returning an error.
import "testing"

func gocvF22Recover(f func() error) (err error, p any) {
	defer func() { p = recover() }()
	return f(), nil
}

func TestGocvReplayF22(t *testing.T) {
	for i := uint(1); i <= 2; i++ {
		suite, Ppub, ID, sQid, encrypt, decrypt := newSetting(i)
		c, err := encrypt(suite, Ppub, ID, []byte("hello world"))
		if err != nil {
			t.Fatal(err)
		}
		long := &Ciphertext{U: c.U, V: make([]byte, 200), W: make([]byte, 200)}
		if err, p := gocvF22Recover(func() error { _, err := decrypt(suite, sQid, long); return err }); p != nil {
			t.Errorf("GOCV-REPRODUCED CCA decryption (setting %d) of a ciphertext longer than the hash output panics: %v", i, p)
		} else if err == nil {
			t.Errorf("GOCV-REPRODUCED CCA decryption (setting %d) of a ciphertext longer than the hash output succeeds", i)
		}
		bad := &Ciphertext{U: nil, V: c.V, W: c.W}
		if err, p := gocvF22Recover(func() error { _, err := decrypt(suite, sQid, bad); return err }); p != nil {
			t.Errorf("GOCV-REPRODUCED CCA decryption (setting %d) of a ciphertext without its point panics: %v", i, p)
		} else if err == nil {
			t.Errorf("GOCV-REPRODUCED CCA decryption (setting %d) of a ciphertext without its point succeeds", i)
		}
	}
	suite, _, _, sQid, _, _ := newSetting(1)
	if err, p := gocvF22Recover(func() error {
		_, err := DecryptCPAonG1(suite, sQid, &CiphertextCPA{RP: nil, C: []byte("0123456789abcdef")})
		return err
	}); p != nil {
		t.Errorf("GOCV-REPRODUCED CPA decryption of a ciphertext without its point panics: %v", p)
	} else if err == nil {
		t.Errorf("GOCV-REPRODUCED CPA decryption of a ciphertext without its point succeeds")
	}
}
