package share

import (
	"testing"

	"github.com/stretchr/testify/require"
	"go.dedis.ch/kyber/v4/group/edwards25519"
)

// Fewer than t usable shares must be refused by RecoverPriPoly, also when the
// share slice is padded with missing (nil) entries up to length n.
func TestDemoC07M3BelowThresholdPaddedRefused(test *testing.T) {
	g := edwards25519.NewBlakeSHA256Ed25519()
	n := uint32(10)
	t := n/2 + 1

	poly := NewPriPoly(g, t, nil, g.RandomStream())
	shares := poly.Shares(n)

	// only t-1 shares remain, the slice still has n entries
	shares[1] = nil
	shares[2] = nil
	shares[5] = nil
	shares[7] = nil
	shares[8] = nil

	rec, err := RecoverPriPoly(g, shares, t, n)
	if err == nil {
		same := rec != nil && rec.Threshold() == t && rec.Secret().Equal(poly.Secret())
		test.Fatalf("RecoverPriPoly accepted %d < t=%d shares (recovered threshold %v, secret matches: %v)",
			t-1, t, rec.Threshold(), same)
	}
	require.Nil(test, rec)

	// sanity: with exactly t shares (nil padded, reversed order) it reconstructs
	shares[8] = poly.Eval(8)
	rev := make([]*PriShare, len(shares))
	for i := range shares {
		rev[len(shares)-1-i] = shares[i]
	}
	rec, err = RecoverPriPoly(g, rev, t, n)
	require.NoError(test, err)
	require.True(test, poly.Equal(rec))
}
