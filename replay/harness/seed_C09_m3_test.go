package cosi

import (
	"bytes"
	"testing"

	"go.dedis.ch/kyber/v4"
	"go.dedis.ch/kyber/v4/util/key"
)

// demoC09M3Round runs one complete CoSi round among the signers listed in
// active. Every signer keeps a long-lived participation mask (masks[i]) that
// is updated with SetMask to the aggregate mask announced by the leader, just
// like a node that serves several rounds would do. It returns the collective
// signature produced by the leader (first active signer).
func demoC09M3Round(t *testing.T, kps []*key.Pair, masks []*Mask, active []int, message []byte) []byte {
	t.Helper()
	n := len(kps)
	publics := make([]kyber.Point, n)
	for i := range kps {
		publics[i] = kps[i].Public
	}

	// commitments and individual masks of the participating signers
	var v []kyber.Scalar
	var V []kyber.Point
	var byteMasks [][]byte
	for _, i := range active {
		x, X := Commit(testSuite)
		v = append(v, x)
		V = append(V, X)
		own, err := NewMask(testSuite, publics, publics[i])
		if err != nil {
			t.Fatal(err)
		}
		byteMasks = append(byteMasks, own.Mask())
	}
	aggV, aggMask, err := AggregateCommitments(testSuite, V, byteMasks)
	if err != nil {
		t.Fatal(err)
	}

	// every participating signer installs the announced mask in its
	// long-lived mask object and answers the challenge
	var r []kyber.Scalar
	for k, i := range active {
		if err := masks[i].SetMask(aggMask); err != nil {
			t.Fatal(err)
		}
		c, err := Challenge(testSuite, aggV, masks[i].AggregatePublic, message)
		if err != nil {
			t.Fatal(err)
		}
		ri, err := Response(testSuite, kps[i].Private, v[k], c)
		if err != nil {
			t.Fatal(err)
		}
		r = append(r, ri)
	}
	aggR, err := AggregateResponses(testSuite, r)
	if err != nil {
		t.Fatal(err)
	}
	sig, err := Sign(testSuite, aggV, aggR, masks[active[0]])
	if err != nil {
		t.Fatal(err)
	}
	return sig
}

// TestDemoC09M3ShrinkingMask shows that a collective signature honestly
// produced by a subset of the signers verifies when the signers re-use the
// mask objects of a previous round in which more signers took part.
func TestDemoC09M3ShrinkingMask(t *testing.T) {
	const n = 5
	var kps []*key.Pair
	var publics []kyber.Point
	for range n {
		kp := key.NewKeyPair(testSuite)
		kps = append(kps, kp)
		publics = append(publics, kp.Public)
	}
	masks := make([]*Mask, n)
	for i := range masks {
		m, err := NewMask(testSuite, publics, nil)
		if err != nil {
			t.Fatal(err)
		}
		masks[i] = m
	}

	// round 1: everybody signs
	sig1 := demoC09M3Round(t, kps, masks, []int{0, 1, 2, 3, 4}, []byte("round one"))
	if err := Verify(testSuite, publics, []byte("round one"), sig1, CompletePolicy{}); err != nil {
		t.Fatalf("round 1 (all signers) must verify: %v", err)
	}

	// round 2: signers 1 and 3 are offline
	active := []int{0, 2, 4}
	msg2 := []byte("round two")
	sig2 := demoC09M3Round(t, kps, masks, active, msg2)

	// the mask object of the leader describes exactly the participants
	want := []byte{0x15}
	if got := masks[0].Mask(); !bytes.Equal(got, want) {
		t.Errorf("mask after SetMask(%x) is %x", want, got)
	}
	if got := masks[0].CountEnabled(); got != len(active) {
		t.Errorf("CountEnabled = %d, want %d", got, len(active))
	}
	agg := testSuite.Point().Null()
	for _, i := range active {
		agg.Add(agg, publics[i])
	}
	if !masks[0].AggregatePublic.Equal(agg) {
		t.Errorf("aggregate public key is not the sum of the keys of the participating signers")
	}

	// the honest 3-of-5 signature verifies under the matching policy ...
	if err := Verify(testSuite, publics, msg2, sig2, NewThresholdPolicy(3)); err != nil {
		t.Errorf("honest collective signature of signers %v rejected: %v", active, err)
	}
	// ... and is refused by a policy that the participants do not meet
	if err := Verify(testSuite, publics, msg2, sig2, NewThresholdPolicy(4)); err == nil {
		t.Errorf("3-of-5 collective signature accepted under a 4-of-5 policy")
	}
	if err := Verify(testSuite, publics, msg2, sig2, CompletePolicy{}); err == nil {
		t.Errorf("3-of-5 collective signature accepted under the complete policy")
	}
}
