// place in: util/random/
// run with: go test -race -vet=off -count=1 -run TestSeedC20SharedStream ./util/random/

package random

import (
	"crypto/cipher"
	"encoding/binary"
	"io"
	"sync"
	"testing"
)

// seedc20CounterReader is a goroutine-safe entropy source: every Read returns
// a block that was never returned before.
type seedc20CounterReader struct {
	mu  sync.Mutex
	ctr uint64
}

func (c *seedc20CounterReader) Read(p []byte) (int, error) {
	c.mu.Lock()
	defer c.mu.Unlock()
	c.ctr++
	for i := range p {
		p[i] = 0
	}
	var w [8]byte
	binary.BigEndian.PutUint64(w[:], c.ctr)
	copy(p, w[:])
	return len(p), nil
}

// The cipher.Stream returned by New is documented as usable from multiple
// goroutines (and random.go requires suite streams to tolerate it). Drawing
// from one shared stream concurrently must be race free, and - as in a
// sequential execution - every draw must yield fresh, distinct output.
func TestSeedC20SharedStream(t *testing.T) {
	t.Run("crypto-rand", func(t *testing.T) {
		seedc20Draw(t, New()) // crypto/rand.Reader underneath
	})
	t.Run("safe-custom-reader", func(t *testing.T) {
		var r io.Reader = &seedc20CounterReader{}
		seedc20Draw(t, New(r))
	})
}

func seedc20Draw(t *testing.T, stream cipher.Stream) {
	const goroutines = 16
	const draws = 200

	out := make([][][32]byte, goroutines)
	start := make(chan struct{})
	var wg sync.WaitGroup
	for g := 0; g < goroutines; g++ {
		wg.Add(1)
		go func(g int) {
			defer wg.Done()
			res := make([][32]byte, draws)
			<-start
			for i := range res {
				Bytes(res[i][:], stream)
			}
			out[g] = res
		}(g)
	}
	close(start)
	wg.Wait()

	seen := make(map[[32]byte]struct{}, goroutines*draws)
	for g := range out {
		for _, v := range out[g] {
			if _, dup := seen[v]; dup {
				t.Errorf("two draws from the shared stream returned the same 32 bytes")
				return
			}
			seen[v] = struct{}{}
		}
	}
}
