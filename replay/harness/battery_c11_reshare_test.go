package dkg

// Battery for property C11 (Pedersen DKG resharing): for disjoint and re-indexed overlapping groups, with and
// without fast sync, everyone honest or one share holder falsely complaining about any dealer (also a dealer
// leaving the group): every honest new node completes, no honest dealer is evicted, the key is unchanged.
// Written for the replay harness after findings F23/F24; it passes on the unchanged tree.

import (
	"testing"

	"go.dedis.ch/kyber/v4/group/edwards25519"
	"go.dedis.ch/kyber/v4/sign/schnorr"
)

func gocvBatteryReshare(t *testing.T, fast bool, disjoint bool, ch, ck int) {
	n := uint32(4)
	thr := uint32(3)
	suite := edwards25519.NewBlakeSHA256Ed25519()
	tns := GenerateTestNodes(suite, n)
	list := NodesFromTest(tns)
	conf := Config{Suite: suite, NewNodes: list, Threshold: thr, Auth: schnorr.NewScheme(suite)}
	results := RunDKG(t, tns, conf, nil, nil, nil)
	for i, tn := range tns {
		tn.res = results[i]
	}
	var newTns []*TestNode
	if disjoint {
		for i := uint32(0); i < n; i++ {
			newTns = append(newTns, NewTestNode(suite, i))
		}
	} else {
		// re-indexed overlap: old nodes 1..3 become new 0..2, plus one fresh node at index 3; old node 0 leaves
		for i := uint32(1); i < n; i++ {
			c := *tns[i]
			c.Index = i - 1
			newTns = append(newTns, &c)
		}
		newTns = append(newTns, NewTestNode(suite, n-1))
	}
	all := append([]*TestNode{}, tns...)
	if disjoint {
		all = append(all, newTns...)
	} else {
		all = []*TestNode{tns[0]}
		all = append(all, newTns...)
	}
	newConf := &Config{Suite: suite, NewNodes: NodesFromTest(newTns), OldNodes: list, Threshold: thr, OldThreshold: thr, Auth: schnorr.NewScheme(suite), FastSync: fast}
	SetupReshareNodes(all, newConf, tns[0].res.Key.Commits)
	var deals []*DealBundle
	for _, node := range all {
		if node.res == nil {
			continue
		}
		d, err := node.dkg.Deals()
		if err != nil {
			t.Fatalf("deals: %v", err)
		}
		deals = append(deals, d)
	}
	var resps []*ResponseBundle
	for i, node := range all {
		r, err := node.dkg.ProcessDeals(deals)
		if err != nil {
			t.Fatalf("node %d ProcessDeals: %v", i, err)
		}
		if r != nil {
			resps = append(resps, r)
		}
	}
	if ch >= 0 {
		// share holder ch falsely complains about dealer ck
		found := false
		for _, r := range resps {
			if r.ShareIndex == uint32(ch) {
				found = true
				set := false
				for i := range r.Responses {
					if r.Responses[i].DealerIndex == uint32(ck) {
						r.Responses[i].Status = Complaint
						set = true
					}
				}
				if !set {
					r.Responses = append(r.Responses, Response{DealerIndex: uint32(ck), Status: Complaint})
				}
			}
		}
		if !found {
			resps = append(resps, &ResponseBundle{ShareIndex: uint32(ch), Responses: []Response{{DealerIndex: uint32(ck), Status: Complaint}}, SessionID: all[0].dkg.c.Nonce})
		}
	}
	var justs []*JustificationBundle
	resOf := map[int]*Result{}
	for i, node := range all {
		r, j, err := node.dkg.ProcessResponses(resps)
		if err != nil {
			t.Errorf("fast=%v disjoint=%v complaint %d->%d: node %d (canIssue=%v canReceive=%v) ProcessResponses: %v", fast, disjoint, ch, ck, i, node.dkg.canIssue, node.dkg.canReceive, err)
		}
		if j != nil {
			justs = append(justs, j)
		}
		if r != nil {
			resOf[i] = r
		}
	}
	for i, node := range all {
		if resOf[i] != nil {
			continue
		}
		r, err := node.dkg.ProcessJustifications(justs)
		if err != nil {
			t.Errorf("fast=%v disjoint=%v complaint %d->%d: node %d ProcessJustifications: %v", fast, disjoint, ch, ck, i, err)
		}
		if r != nil {
			resOf[i] = r
		}
	}
	var res []*Result
	honest := 0
	for i, node := range all {
		if !node.dkg.canReceive {
			continue
		}
		if ch >= 0 && node.dkg.nidx == uint32(ch) {
			continue // the lying share holder
		}
		honest++
		if resOf[i] != nil {
			res = append(res, resOf[i])
		}
		if len(node.dkg.evicted) > 0 {
			t.Errorf("fast=%v disjoint=%v complaint %d->%d: honest node %d evicted dealers %v", fast, disjoint, ch, ck, i, node.dkg.evicted)
		}
	}
	if len(res) != honest {
		t.Errorf("fast=%v disjoint=%v complaint %d->%d: only %d of %d honest new nodes completed", fast, disjoint, ch, ck, len(res), honest)
	}
	for _, r := range res {
		if !r.Key.Commits[0].Equal(tns[0].res.Key.Commits[0]) {
			t.Errorf("distributed key changed by resharing")
		}
	}
}

func TestGocvBatteryReshareFalseComplaints(t *testing.T) {
	for _, fast := range []bool{false, true} {
		for _, dis := range []bool{true, false} {
			gocvBatteryReshare(t, fast, dis, -1, 0)
			for ch := 0; ch < 4; ch++ {
				for ck := 0; ck < 4; ck++ {
					gocvBatteryReshare(t, fast, dis, ch, ck)
				}
			}
		}
	}
}
