package ibe

// Replay for obligation encrypt/ibe.gtToHash::ensures:pad_covers_message (property C16: "No
// accepted ciphertext contains any block of its plaintext in the clear"). The pad derived from
// the pairing value is only as long as the hash output; a longer message is XORed with zero
// bytes beyond it.

import (
	"bytes"
	"testing"

	"go.dedis.ch/kyber/v4"
	circl "go.dedis.ch/kyber/v4/pairing/bls12381/circl"
	"go.dedis.ch/kyber/v4/util/random"
)

func TestGocvReplayF7(t *testing.T) {
	suite := circl.NewSuiteBLS12381()
	P := suite.G1().Point().Pick(random.New())
	s := suite.G1().Scalar().Pick(random.New())
	Ppub := suite.G1().Point().Mul(s, P)
	ID := []byte("gocv replay F7")
	IDP := suite.G2().Point().(kyber.HashablePoint)
	_ = IDP.Hash(ID)
	msg := bytes.Repeat([]byte("SECRET-PLAINTEXT"), 3) // 48 bytes, hash output is 32
	c, err := EncryptCPAonG1(suite, P, Ppub, ID, msg)
	if err != nil {
		return // the scheme refuses what it cannot protect: property holds
	}
	n := suite.Hash().Size()
	if len(msg) > n && bytes.Equal(c.C[n:], msg[n:]) {
		t.Fatalf("REPRODUCED: ciphertext bytes %d..%d equal the plaintext (%q)", n, len(msg)-1, c.C[n:])
	}
}
