// place in: share/pvss/
package pvss

import (
	"testing"

	"github.com/stretchr/testify/assert"
	"github.com/stretchr/testify/require"
	"go.dedis.ch/kyber/v4"
	"go.dedis.ch/kyber/v4/group/edwards25519"
)

// A third party first screens the published decrypted shares with
// VerifyDecShareBatch (one of them is another trustee's share, i.e. a
// cross-trustee swap) and afterwards hands the very same lists to
// RecoverSecret. Screening must not disturb the caller's lists: the n-1
// honest shares (>= t) must still verify at their positions and recover
// the commitment of the secret.
func TestDemoC13VerifyDecShareBatchThenRecover(test *testing.T) {
	suite := edwards25519.NewBlakeSHA256Ed25519()
	n, t := uint32(5), uint32(3)
	G := suite.Point().Base()
	H := suite.Point().Pick(suite.XOF([]byte("H")))

	x := make([]kyber.Scalar, n)
	X := make([]kyber.Point, n)
	for i := range x {
		x[i] = suite.Scalar().Pick(suite.RandomStream())
		X[i] = suite.Point().Mul(x[i], nil)
	}

	secret := suite.Scalar().Pick(suite.RandomStream())
	encShares, pubPoly, err := EncShares(suite, H, X, secret, t)
	require.NoError(test, err)

	chal, err := computeGlobalChallenge(suite, n, pubPoly, encShares)
	require.NoError(test, err)

	decShares := make([]*PubVerShare, n)
	for i := range decShares {
		sH := pubPoly.Eval(encShares[i].S.I).V
		decShares[i], err = DecShare(suite, H, X[i], sH, x[i], chal, encShares[i])
		require.NoError(test, err)
	}

	// Trustee 1 publishes (a copy of) trustee 2's decrypted share.
	swapped := *decShares[2]
	decShares[1] = &swapped

	before := append([]*PubVerShare(nil), decShares...)

	good, err := VerifyDecShareBatch(suite, G, X, encShares, decShares)
	require.NoError(test, err)
	require.Len(test, good, int(n)-1)
	for _, d := range good {
		require.NotSame(test, &swapped, d, "swapped share must be filtered out")
	}

	// The caller's list still holds every trustee's share at its position.
	for i := range decShares {
		assert.Same(test, before[i], decShares[i], "decShares[%d] was replaced by the batch verification", i)
	}

	// Each honest share still verifies for its own trustee ...
	for i := range decShares {
		if i == 1 {
			require.Error(test, VerifyDecShare(suite, G, X[i], encShares[i], decShares[i]))
			continue
		}
		assert.NoError(test, VerifyDecShare(suite, G, X[i], encShares[i], decShares[i]), "honest share %d", i)
	}

	// ... and n-1 >= t valid shares recover the commitment of the secret.
	recovered, err := RecoverSecret(suite, G, X, encShares, decShares, t, n)
	require.NoError(test, err)
	require.True(test, suite.Point().Mul(secret, nil).Equal(recovered))

	// Recovery is repeatable on the same inputs.
	recovered, err = RecoverSecret(suite, G, X, encShares, decShares, t, n)
	require.NoError(test, err)
	require.True(test, suite.Point().Mul(secret, nil).Equal(recovered))
}
