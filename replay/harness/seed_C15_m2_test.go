// place in: shuffle/
package shuffle

import (
	"testing"

	"go.dedis.ch/kyber/v4"
	"go.dedis.ch/kyber/v4/group/edwards25519"
	"go.dedis.ch/kyber/v4/proof"
	"go.dedis.ch/kyber/v4/xof/blake2xb"
)

// C15 demo 2: the two-element simple shuffle must reject a transcript made
// for a Y vector that is NOT gamma times a permutation of X (one element
// replaced), and must keep accepting genuine permutations.
func TestDemoC15SimpleShuffleK2NonPermutation(t *testing.T) {
	suite := edwards25519.NewBlakeSHA256Ed25519WithRand(blake2xb.New([]byte("c15-simple")))
	rand := suite.RandomStream()
	const k = 2

	run := func(x, y []kyber.Scalar, gamma kyber.Scalar) error {
		var ssP SimpleShuffle
		ssP.Init(suite, k)
		prover := func(ctx proof.ProverContext) error {
			return ssP.Prove(nil, gamma, x, y, rand, ctx)
		}
		prf, err := proof.HashProve(suite, "SimpleShuffle", prover)
		if err != nil {
			t.Fatalf("prove: %v", err)
		}
		var ssV SimpleShuffle
		ssV.Init(suite, k)
		Gamma := suite.Point().Mul(gamma, nil)
		verifier := func(ctx proof.VerifierContext) error {
			return ssV.Verify(nil, Gamma, ctx)
		}
		return proof.HashVerify(suite, "SimpleShuffle", verifier, prf)
	}

	for iter := 0; iter < 8; iter++ {
		gamma := suite.Scalar().Pick(rand)
		x := []kyber.Scalar{suite.Scalar().Pick(rand), suite.Scalar().Pick(rand)}

		// honest: y = gamma * (x1, x0)
		yGood := []kyber.Scalar{
			suite.Scalar().Mul(gamma, x[1]),
			suite.Scalar().Mul(gamma, x[0]),
		}
		if err := run(x, yGood, gamma); err != nil {
			t.Fatalf("iter %d: honest simple shuffle rejected: %v", iter, err)
		}

		// forged: second output replaced by an unrelated value
		yBad := []kyber.Scalar{
			suite.Scalar().Mul(gamma, x[1]),
			suite.Scalar().Mul(gamma, suite.Scalar().Pick(rand)),
		}
		if err := run(x, yBad, gamma); err == nil {
			t.Fatalf("iter %d: verifier accepted a simple 2-shuffle whose "+
				"output is not a permutation of the input", iter)
		}

		// forged: duplication of one input
		yDup := []kyber.Scalar{
			suite.Scalar().Mul(gamma, x[0]),
			suite.Scalar().Mul(gamma, x[0]),
		}
		if err := run(x, yDup, gamma); err == nil {
			t.Fatalf("iter %d: verifier accepted a simple 2-shuffle whose "+
				"output duplicates an input", iter)
		}
	}
}
