// place in: group/p256/
//go:build !constantTime

package p256

import (
	"bytes"
	"testing"
)

// Property C03: two points are Equal if and only if their encodings are
// byte-identical. A point P and its negation -P share the x-coordinate but not
// the y-coordinate, so they must encode differently and must not be Equal.
func TestSeedC03EqualIffSameEncoding(t *testing.T) {
	suite := NewBlakeSHA256P256()

	base := suite.Point().Base()
	negBase := suite.Point().Neg(base)

	picked := suite.Point().Pick(suite.RandomStream())
	negPicked := suite.Point().Neg(picked)

	s := suite.Scalar().SetInt64(7)
	mul := suite.Point().Mul(s, nil)
	negMul := suite.Point().Mul(suite.Scalar().Neg(s), nil)

	pairs := []struct {
		name string
		p, q interface {
			MarshalBinary() ([]byte, error)
		}
		eq bool
	}{
		{"base/-base", base, negBase, base.Equal(negBase)},
		{"picked/-picked", picked, negPicked, picked.Equal(negPicked)},
		{"7G/(-7)G", mul, negMul, mul.Equal(negMul)},
		{"base/base", base, suite.Point().Base(), base.Equal(suite.Point().Base())},
	}
	for _, c := range pairs {
		b1, err := c.p.MarshalBinary()
		if err != nil {
			t.Fatal(err)
		}
		b2, err := c.q.MarshalBinary()
		if err != nil {
			t.Fatal(err)
		}
		same := bytes.Equal(b1, b2)
		if c.eq != same {
			t.Errorf("%s: Equal=%v but identical encodings=%v", c.name, c.eq, same)
		}
	}
}
