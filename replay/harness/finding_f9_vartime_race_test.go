package edwards25519vartime

// Replay for obligations group/edwards25519vartime.projPoint.{MarshalBinary,String,Data}::modifies:*
// (property C20): the read-only methods normalise the receiver in place. The sequential part
// shows the internal representation of a shared point changing under MarshalBinary; run with
// -race, concurrent MarshalBinary calls on one shared point are reported as a data race.

import (
	"sync"
	"testing"
)

func TestGocvReplayF9(t *testing.T) {
	c := new(ProjectiveCurve).Init(ParamEd25519(), false)
	P := c.Point().Mul(c.Scalar().SetInt64(12345), nil).(*projPoint)
	zBefore := P.Z.V.String()
	var wg sync.WaitGroup
	for i := 0; i < 4; i++ {
		wg.Add(1)
		go func() {
			defer wg.Done()
			_, _ = P.MarshalBinary()
		}()
	}
	wg.Wait()
	if P.Z.V.String() != zBefore {
		t.Fatalf("REPRODUCED: MarshalBinary rewrote the receiver's coordinates (Z %s -> %s); concurrent readers race on them", zBefore, P.Z.V.String())
	}
}
