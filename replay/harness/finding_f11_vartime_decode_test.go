package edwards25519vartime

// Replay for obligation group/edwards25519vartime.curve.decodePoint::bounds:index (property C04):
// decodePoint indexes b[0] without a length check; decoding the empty string panics.

import (
	"testing"
)

func TestGocvReplayF11(t *testing.T) {
	c := new(ProjectiveCurve).Init(ParamEd25519(), false)
	P := c.Point()
	defer func() {
		if r := recover(); r != nil {
			t.Fatalf("REPRODUCED: UnmarshalBinary(empty) panicked: %v", r)
		}
	}()
	if err := P.UnmarshalBinary([]byte{}); err == nil {
		t.Fatalf("REPRODUCED: empty encoding accepted")
	}
	// over-long input must be refused as well
	long := make([]byte, 40)
	long[0] = 1
	if err := P.UnmarshalBinary(long); err == nil {
		t.Fatalf("REPRODUCED: 40-byte encoding accepted for a 32-byte point")
	}
}
