// place in: proof/
package proof

import (
	"fmt"
	"testing"

	"go.dedis.ch/kyber/v4"
	"go.dedis.ch/kyber/v4/group/edwards25519"
	"go.dedis.ch/kyber/v4/group/p256"
	"go.dedis.ch/kyber/v4/xof/blake2xb"
)

// Completeness of Or-proofs for every (number of branches, proven branch)
// combination: whichever satisfied branch the prover picks, the verifier must
// accept. Each branch is an And of two Reps sharing the secret (ring-signature
// shape), only the chosen branch is true.
func TestDemoC14OrEveryBranchChoice(t *testing.T) {
	suites := map[string]Suite{
		"ed25519": edwards25519.NewBlakeSHA256Ed25519WithRand(blake2xb.New([]byte("c14-m1"))),
		"p256":    p256.NewBlakeSHA256P256(),
	}
	for sname, suite := range suites {
		rand := suite.RandomStream()
		for n := 1; n <= 4; n++ {
			for mine := 0; mine < n; mine++ {
				B := suite.Point().Base()
				H := suite.Point().Pick(rand)
				x := suite.Scalar().Pick(rand)
				T := suite.Point().Mul(x, H)

				sval := map[string]kyber.Scalar{"x": x}
				pval := map[string]kyber.Point{"B": B, "H": H, "T": T}
				subs := make([]Predicate, n)
				for i := range subs {
					name := fmt.Sprintf("X%d", i)
					if i == mine {
						pval[name] = suite.Point().Mul(x, nil)
					} else {
						pval[name] = suite.Point().Pick(rand)
					}
					subs[i] = And(Rep(name, "x", "B"), Rep("T", "x", "H"))
				}
				pred := Or(subs...)
				choice := map[Predicate]int{pred: mine}

				prf, err := HashProve(suite, "C14", pred.Prover(suite, sval, pval, choice))
				if err != nil {
					t.Fatalf("%s n=%d choice=%d: prover: %v", sname, n, mine, err)
				}
				if err := HashVerify(suite, "C14", pred.Verifier(suite, pval), prf); err != nil {
					t.Errorf("%s n=%d choice=%d: valid proof rejected: %v", sname, n, mine, err)
				}
			}
		}
	}
}
