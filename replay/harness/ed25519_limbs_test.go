package edwards25519

// Replay harness for the ref10 limb arithmetic (scAdd, scSub, scMul, scMulAdd, scReduce): drives the
// real functions with edge and pseudo-random canonical scalars and compares with math/big modulo L.
import (
	"encoding/hex"
	"math/big"
	"math/rand"
	"testing"
)

func gocvLE(b []byte) *big.Int {
	r := make([]byte, len(b))
	for i := range b {
		r[len(b)-1-i] = b[i]
	}
	return new(big.Int).SetBytes(r)
}

func gocvTo32(v *big.Int) *[32]byte {
	var out [32]byte
	b := v.Bytes()
	for i := range b {
		out[i] = b[len(b)-1-i]
	}
	return &out
}

func TestGocvHarnessScalarLimbs(t *testing.T) {
	L, _ := new(big.Int).SetString("7237005577332262213973186563042994240857116359379907606001950938285454250989", 10)
	two252 := new(big.Int).Lsh(big.NewInt(1), 252)
	var vals []*big.Int
	add := func(v *big.Int) {
		if v.Sign() >= 0 && v.Cmp(L) < 0 {
			vals = append(vals, new(big.Int).Set(v))
		}
	}
	for _, d := range []int64{0, 1, 2, 3, 255, 256, 65535, 1 << 20, 1<<21 - 1, 1 << 21, 1<<42 - 1} {
		add(big.NewInt(d))
		add(new(big.Int).Sub(L, big.NewInt(d+1)))
		add(new(big.Int).Add(two252, big.NewInt(d)))
		add(new(big.Int).Sub(two252, big.NewInt(d+1)))
	}
	rng := rand.New(rand.NewSource(1))
	for i := 0; i < 60; i++ {
		v := new(big.Int).Rand(rng, L)
		add(v)
	}
	mod := func(v *big.Int) *big.Int { return v.Mod(v, L) }
	check := func(name string, got *[32]byte, want *big.Int, in ...*big.Int) {
		if gocvLE(got[:]).Cmp(want) != 0 {
			s := ""
			for _, v := range in {
				s += " " + hex.EncodeToString(gocvTo32(v)[:])
			}
			t.Fatalf("GOCV-REPRODUCED %s: inputs (little-endian)%s: got %s want %s", name, s, hex.EncodeToString(got[:]), hex.EncodeToString(gocvTo32(want)[:]))
		}
	}
	for i, a := range vals {
		for j, c := range vals {
			if (i+j)%3 != 0 && i != j {
				continue
			}
			var s [32]byte
			scAdd(&s, gocvTo32(a), gocvTo32(c))
			check("scAdd", &s, mod(new(big.Int).Add(a, c)), a, c)
			scSub(&s, gocvTo32(a), gocvTo32(c))
			check("scSub", &s, mod(new(big.Int).Sub(a, c)), a, c)
			scMul(&s, gocvTo32(a), gocvTo32(c))
			check("scMul", &s, mod(new(big.Int).Mul(a, c)), a, c)
			b := vals[(i*7+j*3)%len(vals)]
			scMulAdd(&s, gocvTo32(a), gocvTo32(b), gocvTo32(c))
			check("scMulAdd", &s, mod(new(big.Int).Add(new(big.Int).Mul(a, b), c)), a, b, c)
		}
	}
	for i := 0; i < 300; i++ {
		var in [64]byte
		rng.Read(in[:])
		switch i {
		case 0:
			in = [64]byte{}
		case 1:
			for k := range in {
				in[k] = 0xff
			}
		}
		var out [32]byte
		scReduce(&out, &in)
		want := mod(gocvLE(in[:]))
		if gocvLE(out[:]).Cmp(want) != 0 {
			t.Fatalf("GOCV-REPRODUCED scReduce: input %s: got %s want %s", hex.EncodeToString(in[:]), hex.EncodeToString(out[:]), hex.EncodeToString(gocvTo32(want)[:]))
		}
	}
}
