// place in: sign/eddsa/
package eddsa

import (
	"crypto/ed25519"
	"crypto/sha512"
	"encoding/hex"
	"testing"

	"github.com/stretchr/testify/require"
	"go.dedis.ch/kyber/v4/group/edwards25519"
)

// TestDemoTorsionedR lets the key owner produce a signature whose R carries an
// extra small-order component: R' = r*B + T with T of order 8 (or 4, or 2).
// R' is canonical and does NOT have small order, S is canonical, yet the
// cofactor-less equation S*B == R' + h*A used by RFC 8032 / crypto/ed25519 does
// not hold, so the signature has to be rejected.
func TestDemoTorsionedR(t *testing.T) {
	suite := edwards25519.NewBlakeSHA256Ed25519()

	torsion := []string{
		"26e8958fc2b227b045c3f489f2ef98f0d5dfac05d3c63339b13802886d53fc05", // order 8
		"c7176a703d4dd84fba3c0b760d10670f2a2053fa2c39ccc64ec7fd7792ac037a", // order 8
		"0000000000000000000000000000000000000000000000000000000000000000", // order 4
		"ecffffffffffffffffffffffffffffffffffffffffffffffffffffffffffff7f", // order 2
	}

	for round := 0; round < 8; round++ {
		ed := NewEdDSA(suite.RandomStream())
		A, err := ed.Public.MarshalBinary()
		require.NoError(t, err)
		msg := []byte{byte(round), 't', 'o', 'r', 's', 'i', 'o', 'n'}

		// the honest signature is fine for both verifiers
		honest, err := ed.Sign(msg)
		require.NoError(t, err)
		require.NoError(t, VerifyWithChecks(A, msg, honest))
		require.True(t, ed25519.Verify(ed25519.PublicKey(A), msg, honest))

		for _, th := range torsion {
			tb, err := hex.DecodeString(th)
			require.NoError(t, err)
			T := suite.Point()
			require.NoError(t, T.UnmarshalBinary(tb))

			// R' = r*B + T
			r := suite.Scalar().Pick(suite.RandomStream())
			R := suite.Point().Mul(r, nil)
			R.Add(R, T)
			Rb, err := R.MarshalBinary()
			require.NoError(t, err)

			// h = H(R' || A || msg), S = r + h*a
			hash := sha512.New()
			hash.Write(Rb)
			hash.Write(A)
			hash.Write(msg)
			h := suite.Scalar().SetBytes(hash.Sum(nil))
			S := suite.Scalar().Mul(h, ed.Secret)
			S.Add(S, r)
			Sb, err := S.MarshalBinary()
			require.NoError(t, err)

			sig := append(append([]byte{}, Rb...), Sb...)

			require.False(t, ed25519.Verify(ed25519.PublicKey(A), msg, sig),
				"reference verifier must reject R+torsion")
			require.Error(t, VerifyWithChecks(A, msg, sig),
				"signature with R+torsion (T=%s) accepted although crypto/ed25519 rejects it", th)
			require.Error(t, Verify(ed.Public, msg, sig))
		}
	}
}
