// place in: pairing/bn256/
package bn256

import (
	"testing"

	"go.dedis.ch/kyber/v4"
)

// C06: ValidatePairing(p1,p2,i1,i2) must return true exactly when
// Pair(p1,p2) equals Pair(i1,i2) - including when some operand is the
// identity of its group, for which the pairing is the identity of GT.
func TestC06ValidatePairingAgreesWithPairOnIdentity(t *testing.T) {
	s := NewSuite()
	a := s.G1().Scalar().SetInt64(3)
	b := s.G1().Scalar().SetInt64(5)
	ab := s.G1().Scalar().Mul(a, b)

	P := s.G1().Point().Mul(a, nil)
	P2 := s.G1().Point().Mul(b, nil)
	Q := s.G2().Point().Mul(b, nil)
	O1 := s.G1().Point().Null()
	O2 := s.G2().Point().Null()
	// identity obtained from earlier arithmetic rather than from Null()
	O2arith := s.G2().Point().Sub(Q, Q)
	O2mul := s.G2().Point().Mul(s.G2().Scalar().Zero(), Q)

	one := s.GT().Point().Null()
	for name, q := range map[string]kyber.Point{"Null": O2, "Q-Q": O2arith, "0*Q": O2mul} {
		if !s.Pair(P, q).Equal(one) {
			t.Fatalf("e(P, %s) is not the identity of GT", name)
		}
	}

	cases := []struct {
		name           string
		p1, p2, i1, i2 kyber.Point
	}{
		{"regular/equal", P, Q, s.G1().Point().Mul(ab, nil), s.G2().Point().Base()},
		{"regular/different", P, Q, P2, Q},
		{"e(P,0)=e(0,Q)", P, O2, O1, Q},
		{"e(0,Q)=e(P,0)", O1, Q, P, O2},
		{"e(P,0)=e(P2,0)", P, O2, P2, O2},
		{"e(P,Q-Q)=e(0,Q)", P, O2arith, O1, Q},
		{"e(P,0*Q)=e(P2,0)", P, O2mul, P2, O2},
		{"e(0,0)=e(0,0)", O1, O2, O1, O2},
		{"e(P,Q)!=e(P,0)", P, Q, P, O2},
		{"e(P,0)!=e(P,Q)", P, O2, P, Q},
	}
	for _, c := range cases {
		want := s.Pair(c.p1, c.p2).Equal(s.Pair(c.i1, c.i2))
		got := s.ValidatePairing(c.p1, c.p2, c.i1, c.i2)
		if got != want {
			t.Errorf("%s: ValidatePairing = %v but Pair(p1,p2)==Pair(i1,i2) is %v", c.name, got, want)
		}
	}
}
