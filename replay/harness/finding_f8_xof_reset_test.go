package blake2xb

// Replay for obligation xof/blake2xb.xof.Reseed::ensures:keeps_reset_invariant (property C19:
// "Reset of an XOF obtained from its factory returns it to its seeded initial state"). After a
// Reseed, Reset re-keys from the reseeded key instead of the factory seed.

import (
	"bytes"
	"testing"
)

func TestGocvReplayF8(t *testing.T) {
	for _, n := range []int{0, 16, 64, 100} {
		seed := bytes.Repeat([]byte{0x5a}, n)
		x := New(seed)
		first := make([]byte, 32)
		_, _ = x.Read(first)
		x.Reseed()
		x.Reset()
		again := make([]byte, 32)
		_, _ = x.Read(again)
		if !bytes.Equal(first, again) {
			t.Fatalf("REPRODUCED: seed length %d: output after Reseed+Reset differs from the factory-seeded output", n)
		}
	}
}
