// place in: group/edwards25519/
package edwards25519

import (
	"math/big"
	"testing"

	"go.dedis.ch/kyber/v4"
)

// c02Order is the Ed25519 group order l = 2^252 + 27742317777372353535851937790883648493.
func c02Order(t *testing.T) *big.Int {
	l, ok := new(big.Int).SetString("7237005577332262213973186563042994240857116359379907606001950938285454250989", 10)
	if !ok {
		t.Fatal("bad constant")
	}
	return l
}

// c02FromBig builds a scalar from a non-negative residue < l (little-endian bytes).
func c02FromBig(g kyber.Group, v *big.Int) kyber.Scalar {
	be := v.Bytes()
	le := make([]byte, len(be))
	for i := range be {
		le[len(be)-1-i] = be[i]
	}
	return g.Scalar().SetBytes(le)
}

// c02ToBig decodes the canonical 32-byte little-endian encoding of a scalar.
func c02ToBig(t *testing.T, s kyber.Scalar) *big.Int {
	le, err := s.MarshalBinary()
	if err != nil {
		t.Fatal(err)
	}
	be := make([]byte, len(le))
	for i := range le {
		be[len(le)-1-i] = le[i]
	}
	return new(big.Int).SetBytes(be)
}

// Sub and Neg must agree with integer subtraction modulo l for every pair of
// reduced operands, including subtrahends in the narrow window [2^252, l) --
// which is where all "small negative" values such as -1, -2, ... live.
func TestC02SubNegMatchIntegersModOrder(t *testing.T) {
	g := new(Curve)
	l := c02Order(t)
	two252 := new(big.Int).Lsh(big.NewInt(1), 252)

	operands := []*big.Int{
		big.NewInt(0),
		big.NewInt(1),
		big.NewInt(5),
		new(big.Int).Sub(two252, big.NewInt(1)),
		new(big.Int).Set(two252),
		new(big.Int).Add(two252, big.NewInt(12345)),
		new(big.Int).Sub(l, big.NewInt(2)),
		new(big.Int).Sub(l, big.NewInt(1)),
		new(big.Int).Rsh(l, 1),
	}
	for _, a := range operands {
		for _, b := range operands {
			want := new(big.Int).Sub(a, b)
			want.Mod(want, l)

			sa, sb := c02FromBig(g, a), c02FromBig(g, b)
			diff := g.Scalar().Sub(sa, sb)
			if got := c02ToBig(t, diff); got.Cmp(want) != 0 {
				t.Errorf("Sub(%v, %v) = %v, want %v", a, b, got, want)
			}
			if !diff.Equal(c02FromBig(g, want)) {
				t.Errorf("Sub(%v, %v) is not Equal to the canonical residue %v", a, b, want)
			}
		}
		want := new(big.Int).Neg(a)
		want.Mod(want, l)
		if got := c02ToBig(t, g.Scalar().Neg(c02FromBig(g, a))); got.Cmp(want) != 0 {
			t.Errorf("Neg(%v) = %v, want %v", a, got, want)
		}
	}

	// -(-1) must be 1, and 1000 - (-1) must be 1001.
	one := g.Scalar().One()
	minusOne := g.Scalar().Neg(one)
	if !g.Scalar().Neg(minusOne).Equal(one) {
		t.Errorf("-(-1) != 1")
	}
	x := g.Scalar().SetInt64(1000)
	if !g.Scalar().Sub(x, minusOne).Equal(g.Scalar().SetInt64(1001)) {
		t.Errorf("1000 - (-1) != 1001")
	}
}
