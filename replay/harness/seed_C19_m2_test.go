// place in: util/random/
package random

import (
	"bytes"
	"strings"
	"testing"
)

// The stream must depend on every reader it consumed bytes from, including a
// reader that runs dry before delivering its full 32-byte share: the partial
// bytes it did deliver are still mixed into the seed.
func TestDemoShortReaderStillContributes(t *testing.T) {
	full := strings.Repeat("F", 64) // healthy reader, identical in both streams

	draw := func(short string) []byte {
		s := New(strings.NewReader(short), strings.NewReader(full))
		out := make([]byte, 32)
		s.XORKeyStream(out, out)
		return out
	}

	// Two short readers (21 bytes < 32) with different content.
	a := draw("short-entropy-AAAAAAA")
	b := draw("short-entropy-BBBBBBB")
	if bytes.Equal(a, b) {
		t.Fatalf("output does not depend on the bytes consumed from the short reader: %x", a)
	}

	// And a short reader's bytes must make a difference w.r.t. having an
	// exhausted reader in its place.
	c := draw("")
	if bytes.Equal(a, c) {
		t.Fatalf("bytes of short reader were dropped: %x", a)
	}

	// Determinism: same consumed bytes, same output.
	if !bytes.Equal(a, draw("short-entropy-AAAAAAA")) {
		t.Fatal("stream is not a deterministic function of the consumed bytes")
	}
}
