// place in: pairing/bls12381/kilic/
package kilic

import (
	"testing"
)

// C06: Pair must be a function of its two arguments only: e(aP,bQ) =
// e(P,Q)^(ab) = e(abP,Q) has to hold no matter which other pairing operations
// were performed on the suite before, and ValidatePairing(p1,p2,i1,i2) must be
// true exactly when Pair(p1,p2) equals Pair(i1,i2).
func TestC06PairAfterRejectedValidatePairing(t *testing.T) {
	s := NewBLS12381Suite()
	a := s.G1().Scalar().SetInt64(6)
	b := s.G1().Scalar().SetInt64(7)
	ab := s.G1().Scalar().Mul(a, b)

	aP := s.G1().Point().Mul(a, nil)
	bQ := s.G2().Point().Mul(b, nil)
	abP := s.G1().Point().Mul(ab, nil)
	P := s.G1().Point().Base()
	Q := s.G2().Point().Base()

	// reference value e(P,Q)^(ab), and a first bilinearity check
	ref := s.GT().Point().Mul(ab, s.Pair(P, Q))
	if !s.Pair(aP, bQ).Equal(ref) {
		t.Fatal("e(aP,bQ) != e(P,Q)^(ab) on a fresh suite")
	}

	// an accepted equation does not disturb anything
	if !s.ValidatePairing(aP, bQ, abP, Q) {
		t.Fatal("ValidatePairing rejected e(aP,bQ) = e(abP,Q)")
	}
	if !s.Pair(aP, bQ).Equal(ref) {
		t.Fatal("e(aP,bQ) != e(P,Q)^(ab) after an accepted ValidatePairing")
	}

	// a rejected equation (e.g. a forged signature): e(aP,bQ) != e(P,Q)
	if s.ValidatePairing(aP, bQ, P, Q) {
		t.Fatal("ValidatePairing accepted e(aP,bQ) = e(P,Q)")
	}

	// bilinearity must still hold afterwards
	got := s.Pair(aP, bQ)
	if !got.Equal(ref) {
		t.Errorf("e(aP,bQ) != e(P,Q)^(ab) after a rejected ValidatePairing")
	}
	if !got.Equal(s.Pair(abP, Q)) {
		t.Errorf("e(aP,bQ) != e(abP,Q) after a rejected ValidatePairing")
	}

	// ... and ValidatePairing must agree with Pair, whatever the call order
	for i := 0; i < 2; i++ {
		v := s.ValidatePairing(aP, Q, P, bQ) // e(aP,Q) = e(P,bQ) iff a == b: false
		eq := s.Pair(aP, Q).Equal(s.Pair(P, bQ))
		if v != eq {
			t.Errorf("round %d: ValidatePairing = %v but Pair(p1,p2)==Pair(i1,i2) is %v", i, v, eq)
		}
		// additivity in the first argument: e(aP+P, Q) = e(aP,Q)*e(P,Q)
		sum := s.Pair(s.G1().Point().Add(aP, P), Q)
		prod := s.GT().Point().Add(s.Pair(aP, Q), s.Pair(P, Q))
		if !sum.Equal(prod) {
			t.Errorf("round %d: e(aP+P,Q) != e(aP,Q)*e(P,Q)", i)
		}
	}
}
