package shuffle

// Replay for obligation shuffle.PairShuffle.Verify::ensures:step6_bound_to_transcript (property
// C15: "Verification fails whenever the claimed output is not a permutation of re-encryptions of
// the input ... including outputs that ... linearly combine ciphertexts"). The verifier never ties
// the embedded simple shuffle (step 6) to the values A + lambda*B and C + lambda*D determined by
// the transcript, so the remaining equations (31)-(35) can be satisfied for ANY invertible linear
// map of the inputs. The forged proof below is for Xbar = (X0+X1, X1), Ybar = (Y0+Y1, Y1).

import (
	"testing"

	"go.dedis.ch/kyber/v4"
	"go.dedis.ch/kyber/v4/group/edwards25519"
	"go.dedis.ch/kyber/v4/proof"
)

func TestGocvReplayF10(t *testing.T) {
	suite := edwards25519.NewBlakeSHA256Ed25519()
	rand := suite.RandomStream()
	k := 2
	G := suite.Point().Base()
	h := suite.Scalar().Pick(rand)
	H := suite.Point().Mul(h, nil)
	X := make([]kyber.Point, k)
	Y := make([]kyber.Point, k)
	for i := range X {
		r := suite.Scalar().Pick(rand)
		X[i] = suite.Point().Mul(r, nil)
		Y[i] = suite.Point().Add(suite.Point().Mul(r, H), suite.Point().Pick(rand))
	}
	// the claimed "shuffle": a linear combination, not a permutation of re-encryptions
	Xbar := []kyber.Point{suite.Point().Add(X[0], X[1]), X[1].Clone()}
	Ybar := []kyber.Point{suite.Point().Add(Y[0], Y[1]), Y[1].Clone()}

	forger := func(ctx proof.ProverContext) error {
		ps := PairShuffle{}
		ps.Init(suite, k)
		gamma := suite.Scalar().Pick(rand)
		tau0 := suite.Scalar().Pick(rand)
		p1 := &ps.p1
		p1.Gamma = suite.Point().Mul(gamma, G)
		for i := 0; i < k; i++ {
			p1.A[i] = suite.Point().Pick(rand)
			p1.C[i] = suite.Point().Pick(rand)
			p1.U[i] = suite.Point().Pick(rand)
			p1.W[i] = suite.Point().Pick(rand)
		}
		p1.Lambda1 = suite.Point().Neg(suite.Point().Mul(tau0, G))
		p1.Lambda2 = suite.Point().Neg(suite.Point().Mul(tau0, H))
		if err := ctx.Put(p1); err != nil {
			return err
		}
		v2 := &ps.v2
		if err := ctx.PubRand(v2); err != nil {
			return err
		}
		// sigma with M^T sigma = rho for M = [[1,1],[0,1]]
		sigma := []kyber.Scalar{v2.Zrho[0].Clone(), suite.Scalar().Sub(v2.Zrho[1], v2.Zrho[0])}
		p3 := &ps.p3
		for i := 0; i < k; i++ {
			p3.D[i] = suite.Point().Sub(suite.Point().Mul(sigma[i], p1.Gamma), p1.W[i])
		}
		if err := ctx.Put(p3); err != nil {
			return err
		}
		v4 := &ps.v4
		if err := ctx.PubRand(v4); err != nil {
			return err
		}
		p5 := &ps.p5
		p5.Zsigma = sigma
		p5.Ztau = tau0
		if err := ctx.Put(p5); err != nil {
			return err
		}
		// any valid simple shuffle for step 6
		r := []kyber.Scalar{suite.Scalar().Pick(rand), suite.Scalar().Pick(rand)}
		s := []kyber.Scalar{suite.Scalar().Mul(gamma, r[0]), suite.Scalar().Mul(gamma, r[1])}
		return ps.pv6.Prove(G, gamma, r, s, rand, ctx)
	}
	prf, err := proof.HashProve(suite, "PairShuffle", forger)
	if err != nil {
		t.Skip("forger could not build a transcript: ", err)
	}
	if err := proof.HashVerify(suite, "PairShuffle", Verifier(suite, G, H, X, Y, Xbar, Ybar), prf); err == nil {
		t.Fatalf("REPRODUCED: a proof for the non-permutation output (X0+X1, Y0+Y1), (X1, Y1) is accepted")
	}
}
