// place in: group/edwards25519/
//go:build !constantTime

package edwards25519

import (
	"testing"

	"go.dedis.ch/kyber/v4"
)

// The variable-time scalar multiplication (enabled per point through
// kyber.AllowsVarTime) must agree with the constant-time one for every scalar,
// in particular 0*P = O and (a-a)*P = O, and the result must still behave as
// the group identity afterwards.
func TestDemoC01VartimeMulBoundaryScalars(t *testing.T) {
	g := NewBlakeSHA256Ed25519()
	rnd := g.XOF([]byte("demo C01 vartime"))
	null := g.Point().Null()

	a := g.Scalar().Pick(rnd)
	scalars := map[string]kyber.Scalar{
		"0":      g.Scalar().Zero(),
		"1":      g.Scalar().One(),
		"2":      g.Scalar().SetInt64(2),
		"16":     g.Scalar().SetInt64(16),
		"q-1":    g.Scalar().SetInt64(-1),
		"a":      a,
		"a-a":    g.Scalar().Sub(a, a),
		"a+(-a)": g.Scalar().Add(a, g.Scalar().Neg(a)),
	}

	bases := map[string]kyber.Point{
		"B":    g.Point().Base(),
		"pick": g.Point().Pick(rnd),
		"O":    g.Point().Null(),
	}

	for bn, P := range bases {
		for sn, s := range scalars {
			want := g.Point().Mul(s, P) // constant-time path

			vt := g.Point()
			vt.(kyber.AllowsVarTime).AllowVarTime(true)
			got := vt.Mul(s, P) // variable-time path

			if !got.Equal(want) {
				t.Errorf("vartime %s*%s = %v, constant-time gives %v", sn, bn, got, want)
			}
			if s.Equal(g.Scalar().Zero()) {
				if !got.Equal(null) {
					t.Errorf("vartime %s*%s = %v is not the identity", sn, bn, got)
				}
				// O + P = P must hold for the computed identity.
				sum := g.Point().Add(got, P)
				if !sum.Equal(P) {
					t.Errorf("(%s*%s) + %s != %s", sn, bn, bn, bn)
				}
			}
		}
	}
}
