// place in: sign/bdn/
//go:build !constantTime

package bdn

import (
	"testing"

	"github.com/stretchr/testify/require"
	"go.dedis.ch/kyber/v4"
	"go.dedis.ch/kyber/v4/pairing/bls12381/kilic"
	"go.dedis.ch/kyber/v4/util/random"
)

// C09: a BDN aggregate over a participation mask verifies under the aggregate
// key of exactly that mask, however the mask object was built. Here the masks
// are built the documented way: one pre-computed base mask, cloned once per
// participant set, each clone then filled with SetBit / Merge.
func TestDemoC09MasksClonedFromSharedBase(t *testing.T) {
	msg := []byte("bdn over cloned masks")
	suite := kilic.NewBLS12381Suite()
	for _, scheme := range []*Scheme{NewSchemeOnG1(suite), NewSchemeOnG2(suite)} {
		const n = 10
		privs := make([]kyber.Scalar, n)
		pubs := make([]kyber.Point, n)
		sigs := make([][]byte, n)
		for i := range n {
			privs[i], pubs[i] = scheme.NewKeyPair(random.New())
			sig, err := scheme.Sign(privs[i], msg)
			require.NoError(t, err)
			sigs[i] = sig
		}

		base, err := NewMask(scheme.keyGroup, pubs, nil)
		require.NoError(t, err)

		// reference masks, each built from scratch
		fresh := func(bits ...int) *Mask {
			m, err := NewMask(scheme.keyGroup, pubs, nil)
			require.NoError(t, err)
			for _, b := range bits {
				require.NoError(t, m.SetBit(b, true))
			}
			return m
		}
		refA, refB := fresh(0, 3, 9), fresh(1, 3, 8)

		// the same two participant sets, built from clones of the base mask
		maskA := base.Clone()
		require.NoError(t, maskA.SetBit(0, true))
		require.NoError(t, maskA.SetBit(3, true))
		require.NoError(t, maskA.SetBit(9, true))
		maskB := base.Clone()
		require.NoError(t, maskB.Merge([]byte{0x0a, 0x01}))

		aggSigA, err := scheme.AggregateSignatures([][]byte{sigs[0], sigs[3], sigs[9]}, refA)
		require.NoError(t, err)
		sigA, err := aggSigA.MarshalBinary()
		require.NoError(t, err)

		keyA, err := scheme.AggregatePublicKeys(maskA)
		require.NoError(t, err)
		keyB, err := scheme.AggregatePublicKeys(maskB)
		require.NoError(t, err)
		refKeyA, err := scheme.AggregatePublicKeys(refA)
		require.NoError(t, err)

		// the aggregate of signers {0,3,9} verifies under the key of mask A,
		// and under no other mask or message
		require.NoError(t, scheme.Verify(keyA, msg, sigA))
		require.True(t, keyA.Equal(refKeyA))
		require.Error(t, scheme.Verify(keyB, msg, sigA))
		require.Error(t, scheme.Verify(keyA, []byte("other message"), sigA))

		require.Equal(t, refA.Mask(), maskA.Mask())
		require.Equal(t, refB.Mask(), maskB.Mask())
		require.Equal(t, 0, base.CountEnabled())
	}
}
