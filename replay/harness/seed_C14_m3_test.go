package proof

import (
	"fmt"
	"testing"

	"go.dedis.ch/kyber/v4"
	"go.dedis.ch/kyber/v4/group/edwards25519"
	"go.dedis.ch/kyber/v4/xof/blake2xb"
)

// TestDemoC14M3AlteredSubChallenge checks that a valid Or-of-And proof is
// rejected once one of the Or sub-challenges it carries is replaced by a
// different scalar. Every sub-challenge slot is tried, for every choice of the
// proven branch.
func TestDemoC14M3AlteredSubChallenge(t *testing.T) {
	rand := blake2xb.New([]byte("demo C14 m3"))
	suite := edwards25519.NewBlakeSHA256Ed25519WithRand(rand)
	B := suite.Point().Base()
	B2 := suite.Point().Pick(rand)

	const nbranch = 3
	x := suite.Scalar().Pick(rand)

	for mine := 0; mine < nbranch; mine++ {
		// Only branch "mine" is true: X[mine]=x*B and T=x*B2.
		sec := map[string]kyber.Scalar{"x": x}
		pub := map[string]kyber.Point{"B": B, "B2": B2,
			"T": suite.Point().Mul(x, B2)}
		preds := make([]Predicate, nbranch)
		for i := 0; i < nbranch; i++ {
			name := fmt.Sprintf("X%d", i)
			if i == mine {
				pub[name] = suite.Point().Mul(x, nil)
			} else {
				pub[name] = suite.Point().Pick(rand)
			}
			preds[i] = And(Rep(name, "x", "B"), Rep("T", "x", "B2"))
		}
		pred := Or(preds...)
		choice := map[Predicate]int{pred: mine}

		prf, err := HashProve(suite, "DEMO", pred.Prover(suite, sec, pub, choice))
		if err != nil {
			t.Fatalf("choice %d: prover: %v", mine, err)
		}
		if err := HashVerify(suite, "DEMO", pred.Verifier(suite, pub), prf); err != nil {
			t.Fatalf("choice %d: genuine proof rejected: %v", mine, err)
		}

		// Proof layout: 2 commitments per branch, then the nbranch
		// sub-challenges, then one response per branch.
		plen := suite.PointLen()
		slen := suite.ScalarLen()
		chalOff := nbranch * 2 * plen
		if len(prf) != chalOff+nbranch*slen+nbranch*slen {
			t.Fatalf("unexpected proof length %d", len(prf))
		}

		for k := 0; k < nbranch; k++ {
			off := chalOff + k*slen
			ck := suite.Scalar()
			if err := ck.UnmarshalBinary(prf[off : off+slen]); err != nil {
				t.Fatal(err)
			}
			alt := suite.Scalar().Add(ck, suite.Scalar().One())
			if alt.Equal(ck) {
				t.Fatal("alteration did not change the scalar")
			}
			ab, err := alt.MarshalBinary()
			if err != nil {
				t.Fatal(err)
			}
			bad := append([]byte{}, prf...)
			copy(bad[off:off+slen], ab)

			err = HashVerify(suite, "DEMO", pred.Verifier(suite, pub), bad)
			if err == nil {
				t.Errorf("choice %d: proof with sub-challenge %d replaced "+
					"by a different scalar was accepted", mine, k)
			}
		}
	}
}
