// place in: group/edwards25519/
package edwards25519

import (
	"bytes"
	"testing"
)

// C17: Embed is lossless for every data length 0..EmbedLen, including a
// zero-length (but non-nil) payload: Data must return exactly the stored
// (empty) byte string, also after an encode/decode round trip, and the point
// must lie in the prime-order subgroup.
func TestC17EmbedEmptyPayloadIsLossless(t *testing.T) {
	suite := NewBlakeSHA256Ed25519()
	for seed := 0; seed < 32; seed++ {
		for _, data := range [][]byte{{}, make([]byte, 0, 8), []byte("x")[:0]} {
			stream := suite.XOF([]byte{byte(seed), 'C', '1', '7'})
			p := suite.Point().Embed(data, stream)

			got, err := p.Data()
			if err != nil {
				t.Fatalf("seed %d: Data() on point embedding empty payload failed: %v", seed, err)
			}
			if !bytes.Equal(got, data) {
				t.Fatalf("seed %d: Data() = %x, want empty payload", seed, got)
			}

			// round trip through the wire encoding
			enc, err := p.MarshalBinary()
			if err != nil {
				t.Fatal(err)
			}
			q := suite.Point()
			if err := q.UnmarshalBinary(enc); err != nil {
				t.Fatal(err)
			}
			got, err = q.Data()
			if err != nil || len(got) != 0 {
				t.Fatalf("seed %d: after decode Data() = %x, %v; want empty, nil", seed, got, err)
			}

			// subgroup membership: l*P == O
			var chk point
			chk.Mul(primeOrderScalar, p)
			if !chk.Equal(nullPoint) {
				t.Fatalf("seed %d: embedded point not in prime-order subgroup", seed)
			}
		}
	}
}
