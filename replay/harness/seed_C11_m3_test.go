package dkg

import (
	"testing"

	"github.com/stretchr/testify/require"

	"go.dedis.ch/kyber/v4"
	"go.dedis.ch/kyber/v4/group/edwards25519"
	"go.dedis.ch/kyber/v4/share"
	"go.dedis.ch/kyber/v4/sign/schnorr"
	"go.dedis.ch/kyber/v4/util/random"
)

// TestDemoC11M3ReshareReindexedAgreement runs a resharing in which the members
// of the old group keep their keys but get *different* indices in the new
// group. One old dealer (old index 0) deviates: it gives an invalid share to
// one honest new share holder and never justifies it. All honest new share
// holders that complete must agree on the commitment polynomial, the QUAL set,
// the (unchanged) public key, and their shares must lie on that polynomial.
func TestDemoC11M3ReshareReindexedAgreement(t *testing.T) {
	const n = uint32(4)
	const thr = uint32(3)
	suite := edwards25519.NewBlakeSHA256Ed25519()
	auth := schnorr.NewScheme(suite)

	type member struct {
		priv kyber.Scalar
		pub  kyber.Point
		oidx uint32
		nidx uint32
		gen  *DistKeyGenerator
		res  *Result
	}
	members := make([]*member, n)
	oldList := make([]Node, n)
	for i := range n {
		priv := suite.Scalar().Pick(random.New())
		members[i] = &member{
			priv: priv,
			pub:  suite.Point().Mul(priv, nil),
			oidx: i,
			// every member is re-indexed in the new group
			nidx: (i + 1) % n,
		}
		oldList[i] = Node{Index: i, Public: members[i].pub}
	}

	// ---- 1. fresh, fully honest DKG among the old group ----
	nonce := GetNonce()
	for _, m := range members {
		c := &Config{
			Suite:     suite,
			Longterm:  m.priv,
			NewNodes:  oldList,
			Threshold: thr,
			Auth:      auth,
			Nonce:     nonce,
		}
		var err error
		m.gen, err = NewDistKeyHandler(c)
		require.NoError(t, err)
	}
	var deals []*DealBundle
	for _, m := range members {
		d, err := m.gen.Deals()
		require.NoError(t, err)
		deals = append(deals, d)
	}
	for _, m := range members {
		resp, err := m.gen.ProcessDeals(deals)
		require.NoError(t, err)
		require.Nil(t, resp)
	}
	for _, m := range members {
		res, just, err := m.gen.ProcessResponses(nil)
		require.NoError(t, err)
		require.Nil(t, just)
		require.NotNil(t, res)
		m.res = res
	}
	oldKey := members[0].res.Key.Public()

	// ---- 2. resharing towards the same keys, but with permuted indices ----
	newList := make([]Node, n)
	for i, m := range members {
		newList[i] = Node{Index: m.nidx, Public: m.pub}
	}
	nonce = GetNonce()
	for _, m := range members {
		c := &Config{
			Suite:        suite,
			Longterm:     m.priv,
			OldNodes:     oldList,
			NewNodes:     newList,
			Share:        m.res.Key,
			Threshold:    thr,
			OldThreshold: thr,
			Auth:         auth,
			Nonce:        nonce,
		}
		var err error
		m.gen, err = NewDistKeyHandler(c)
		require.NoError(t, err)
	}

	// the deviating dealer is the one with old index 0; its victim is the
	// member with old index 1 (new index 2).
	cheater := members[0]
	victim := members[1]
	honest := members[1:]

	deals = nil
	for _, m := range members {
		d, err := m.gen.Deals()
		require.NoError(t, err)
		if m == cheater {
			var tampered bool
			for i := range d.Deals {
				if d.Deals[i].ShareIndex == victim.nidx {
					d.Deals[i].EncryptedShare = []byte("not a valid encrypted share")
					tampered = true
				}
			}
			require.True(t, tampered)
		}
		deals = append(deals, d)
	}

	var responses []*ResponseBundle
	for _, m := range honest {
		resp, err := m.gen.ProcessDeals(deals)
		require.NoError(t, err)
		if m == victim {
			// the victim must complain about the cheater, and only him
			require.NotNil(t, resp)
			require.Equal(t, victim.nidx, resp.ShareIndex)
			require.Len(t, resp.Responses, 1)
			require.Equal(t, cheater.oidx, resp.Responses[0].DealerIndex)
			require.Equal(t, Complaint, resp.Responses[0].Status)
		} else {
			require.Nil(t, resp)
		}
		if resp != nil {
			responses = append(responses, resp)
		}
	}

	// every honest node sees the same broadcast responses. The cheater never
	// sends a justification.
	var results []*Result
	pending := make([]*member, 0, len(honest))
	for _, m := range honest {
		res, just, err := m.gen.ProcessResponses(responses)
		require.NoError(t, err)
		require.Nil(t, just, "honest dealers have nothing to justify")
		if res != nil {
			results = append(results, res)
			continue
		}
		pending = append(pending, m)
	}
	for _, m := range pending {
		res, err := m.gen.ProcessJustifications(nil)
		require.NoError(t, err)
		require.NotNil(t, res)
		results = append(results, res)
	}
	require.Len(t, results, len(honest), "every honest share holder completes")

	// ---- 3. agreement between all honest outputs ----
	ref := results[0]
	for i, res := range results {
		require.Equal(t, int(thr), len(res.Key.Commits))
		require.Equal(t, len(ref.Key.Commits), len(res.Key.Commits))
		for k := range ref.Key.Commits {
			require.True(t, ref.Key.Commits[k].Equal(res.Key.Commits[k]),
				"honest result %d disagrees on commitment coefficient %d", i, k)
		}
		require.Equal(t, len(ref.QUAL), len(res.QUAL), "honest result %d disagrees on QUAL size", i)
		for k := range ref.QUAL {
			require.True(t, ref.QUAL[k].Equal(&res.QUAL[k]), "honest result %d disagrees on QUAL", i)
		}
		// the cheater's invalid deal stayed unjustified: he is not qualified
		for _, q := range res.QUAL {
			require.False(t, q.Public.Equal(cheater.pub), "unjustified dealer is in QUAL of result %d", i)
		}
		// resharing does not change the distributed public key
		require.True(t, oldKey.Equal(res.Key.Public()), "public key changed in result %d", i)
	}

	// every honest share lies on the agreed polynomial and t of them
	// reconstruct the secret behind the public key
	pubPoly := share.NewPubPoly(suite, suite.Point().Base(), ref.Key.Commits)
	var shares []*share.PriShare
	for i, res := range results {
		require.True(t, pubPoly.Check(res.Key.Share), "share of honest result %d is not on the agreed polynomial", i)
		shares = append(shares, res.Key.Share)
	}
	secret, err := share.RecoverSecret(suite, shares, thr, n)
	require.NoError(t, err)
	require.True(t, suite.Point().Mul(secret, nil).Equal(oldKey))
}
