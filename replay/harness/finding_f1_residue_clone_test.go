package p256

// Replay of finding F1 (C05, value semantics): residuePoint.Clone and residuePoint.Set copy the embedded
// big.Int struct, so the copy shares the word buffer of its source; an in-place operation on the
// source then changes the copy.
import (
	"math/big"
	"testing"
)

// a 128-bit safe-prime group: P = 2Q + 1, generator 4 (a quadratic residue)
func gocvF1Group() *ResidueGroup {
	q, _ := new(big.Int).SetString("170141183460469231731687303715884114527", 10)
	for {
		p := new(big.Int).Add(new(big.Int).Lsh(q, 1), big.NewInt(1))
		if q.ProbablyPrime(20) && p.ProbablyPrime(20) {
			g := &ResidueGroup{}
			g.SetParams(p, q, big.NewInt(2), big.NewInt(4))
			return g
		}
		q.Add(q, big.NewInt(2))
	}
}

func TestGocvReplayF1(t *testing.T) {
	g := gocvF1Group()
	// a = some element with a multi-word value
	a := g.Point().Mul(g.Scalar().SetInt64(123456789), nil)
	want := new(big.Int).Set(&a.(*residuePoint).Int)

	b := a.Clone()
	// in-place operations on the source that reuse its word buffer
	a.Null() // public API: overwrites the source in place (value 1)
	if b.(*residuePoint).Int.Cmp(want) != 0 {
		t.Fatalf("GOCV-REPRODUCED Clone shares the source's buffer: clone changed from %x to %x after the source was overwritten in place", want, &b.(*residuePoint).Int)
	}

	c := g.Point().Mul(g.Scalar().SetInt64(987654321), nil)
	wantC := new(big.Int).Set(&c.(*residuePoint).Int)
	d := g.Point().Set(c)
	c.Null()
	if d.(*residuePoint).Int.Cmp(wantC) != 0 {
		t.Fatalf("GOCV-REPRODUCED Set shares the source's buffer: copy changed from %x to %x after the source was overwritten in place", wantC, &d.(*residuePoint).Int)
	}
}
