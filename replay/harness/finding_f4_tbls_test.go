//go:build !constantTime

package tbls

// Replay for obligation sign/tbls.scheme.Recover::ensures:distinct_indices (property C09):
// the list of partial signatures handed to Lagrange recovery may contain the same share index
// twice, so t collected entries need not be t distinct shares. With t=3 and the valid partials
// [p0, p0, p1, p2, p3] recovery must succeed (four distinct valid partials are present).

import (
	"testing"

	"go.dedis.ch/kyber/v4/pairing/bn256"
	"go.dedis.ch/kyber/v4/share"
	"go.dedis.ch/kyber/v4/xof/blake2xb"
)

func TestGocvReplayF4(t *testing.T) {
	msg := []byte("gocv replay F4")
	stream := blake2xb.New(msg)
	suite := bn256.NewSuiteRand(stream)
	scheme := NewThresholdSchemeOnG1(suite)
	n, th := uint32(5), uint32(3)
	secret := suite.G1().Scalar().Pick(stream)
	priPoly := share.NewPriPoly(suite.G2(), th, secret, stream)
	pubPoly := priPoly.Commit(suite.G2().Point().Base())
	var p [][]byte
	for _, x := range priPoly.Shares(n) {
		sig, err := scheme.Sign(x, msg)
		if err != nil {
			t.Skip("setup failed: ", err)
		}
		p = append(p, sig)
	}
	for _, list := range [][][]byte{
		{p[0], p[0], p[1], p[2], p[3]},
		{p[4], p[4], p[4], p[1], p[0]},
		{p[2], p[3], p[2], p[3], p[0]},
	} {
		sig, err := scheme.Recover(pubPoly, msg, list, th, n)
		if err != nil {
			t.Fatalf("REPRODUCED: Recover refused a list containing >= t distinct valid partials (duplicates first): %v", err)
		}
		if err := scheme.VerifyRecovered(pubPoly.Commit(), msg, sig); err != nil {
			t.Fatalf("REPRODUCED: recovered signature does not verify: %v", err)
		}
	}
}
