package dkg

// Replay of findings F23/F24 (C11, Pedersen DKG resharing): a dealer that leaves the group (member of the
// old group only) must answer the complaints against its deals, otherwise any (false) complaint
// disqualifies it. F23: ProcessResponses rejects a leaving node in every phase (after ProcessDeals, which
// the Protocol driver calls on every node, it is in the response phase and gets a PhaseError; before, it
// fails the second phase test), so it never produces a justification. F24: once served, a leaving node
// (whose index in the new group is the zero value) skips the response bundle of share holder 0 as if it
// were its own, and never sees that holder's complaints.
import (
	"errors"
	"testing"

	"go.dedis.ch/kyber/v4/group/edwards25519"
	"go.dedis.ch/kyber/v4/sign/schnorr"
)

// a finished 4-node DKG reshared to a disjoint group of 4 new nodes; everybody has processed the deals
func gocvF23Setup(t *testing.T) (old, fresh []*TestNode) {
	n := uint32(4)
	thr := uint32(3)
	suite := edwards25519.NewBlakeSHA256Ed25519()
	tns := GenerateTestNodes(suite, n)
	list := NodesFromTest(tns)
	conf := Config{Suite: suite, NewNodes: list, Threshold: thr, Auth: schnorr.NewScheme(suite)}
	results := RunDKG(t, tns, conf, nil, nil, nil)
	for i, tn := range tns {
		tn.res = results[i]
	}
	newTns := make([]*TestNode, n)
	for i := range newTns {
		newTns[i] = NewTestNode(suite, uint32(i))
	}
	all := append(append([]*TestNode{}, tns...), newTns...)
	newConf := &Config{Suite: suite, NewNodes: NodesFromTest(newTns), OldNodes: list, Threshold: thr, OldThreshold: thr, Auth: schnorr.NewScheme(suite)}
	SetupReshareNodes(all, newConf, tns[0].res.Key.Commits)
	var deals []*DealBundle
	for _, node := range tns {
		d, err := node.dkg.Deals()
		if err != nil {
			t.Fatal(err)
		}
		deals = append(deals, d)
	}
	for _, node := range all {
		if _, err := node.dkg.ProcessDeals(deals); err != nil {
			t.Fatal(err)
		}
	}
	return tns, newTns
}

func gocvF23Complaint(t *testing.T, holder uint32) {
	old, _ := gocvF23Setup(t)
	// share holder `holder` of the new group complains (falsely) about the leaving dealer 1
	rb := &ResponseBundle{ShareIndex: holder, Responses: []Response{{DealerIndex: 1, Status: Complaint}}, SessionID: old[1].dkg.c.Nonce}
	_, jb, err := old[1].dkg.ProcessResponses([]*ResponseBundle{rb})
	var pe *PhaseError
	if errors.As(err, &pe) {
		t.Errorf("GOCV-REPRODUCED a leaving dealer that has processed the deals is refused by ProcessResponses: %v", err)
		return
	}
	if err != nil {
		t.Fatalf("unexpected error: %v", err)
	}
	if jb == nil || len(jb.Justifications) != 1 || jb.Justifications[0].ShareIndex != holder {
		t.Errorf("GOCV-REPRODUCED the leaving dealer 1 does not answer the complaint of share holder %d (justification bundle: %v)", holder, jb)
	}
}

func TestGocvReplayF23(t *testing.T) { gocvF23Complaint(t, 1) }

func TestGocvReplayF24(t *testing.T) { gocvF23Complaint(t, 0) }
