package dss

import (
	"bytes"
	"crypto/ed25519"
	"testing"

	"github.com/stretchr/testify/require"
	"go.dedis.ch/kyber/v4/sign/eddsa"
)

// TestDemoC12M3ExactThresholdSubsets checks that any subset of exactly t valid
// partial signatures, collected at any participant in any order, is enough to
// produce the (unique) distributed Schnorr signature, and that this signature
// is a standard EdDSA signature under the distributed public key.
func TestDemoC12M3ExactThresholdSubsets(t0 *testing.T) {
	msg := []byte("hello")
	distPub := longterms[0].Public()
	pubBuf, err := distPub.MarshalBinary()
	require.NoError(t0, err)

	// every participant issues its partial signature once
	pss := make([]*PartialSig, nbParticipants)
	for i := range nbParticipants {
		ps, err := getDSS(i).PartialSig()
		require.NoError(t0, err)
		pss[i] = ps
	}

	// collector -> the other t-1 signers, in the order they are delivered
	cases := []struct {
		collector uint32
		others    []uint32
	}{
		{0, []uint32{1, 2, 3}},
		{6, []uint32{5, 4, 3}},
		{2, []uint32{6, 0, 4}},
		{5, []uint32{1, 6, 3}},
	}

	var ref []byte
	for _, c := range cases {
		require.Equal(t0, int(t)-1, len(c.others))
		d := getDSS(c.collector)
		// receive the others first, sign last: order must not matter
		for _, j := range c.others {
			require.NoError(t0, d.ProcessPartialSig(pss[j]))
		}
		require.False(t0, d.EnoughPartialSig(), "t-1 partials must not be enough")
		_, err := d.Signature()
		require.Error(t0, err, "no signature from fewer than t partials")

		_, err = d.PartialSig()
		require.NoError(t0, err)
		require.True(t0, d.EnoughPartialSig(), "t partials must be enough")

		sig, err := d.Signature()
		require.NoError(t0, err, "collector %d: t valid partials must combine into a signature", c.collector)
		require.NotNil(t0, sig)

		require.NoError(t0, eddsa.Verify(distPub, msg, sig))
		require.NoError(t0, Verify(distPub, msg, sig))
		require.True(t0, ed25519.Verify(ed25519.PublicKey(pubBuf), msg, sig),
			"signature must verify under crypto/ed25519")

		if ref == nil {
			ref = sig
		} else {
			require.True(t0, bytes.Equal(ref, sig), "all participants must derive the same signature")
		}
	}

	// a participant holding all n partials derives the very same signature
	full := getDSS(3)
	_, err = full.PartialSig()
	require.NoError(t0, err)
	for j := range nbParticipants {
		if j == 3 {
			continue
		}
		require.NoError(t0, full.ProcessPartialSig(pss[j]))
	}
	sig, err := full.Signature()
	require.NoError(t0, err)
	require.True(t0, bytes.Equal(ref, sig))
}
