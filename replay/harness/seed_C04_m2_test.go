// place in: sign/anon/

package anon

import (
	"testing"

	"go.dedis.ch/kyber/v4"
	"go.dedis.ch/kyber/v4/group/edwards25519"
)

// Decrypt is handed untrusted bytes: every truncation of a genuine ciphertext
// (to any length 0..len-1) must be rejected with an error, never a panic -
// whatever position the receiver's key has in the anonymity set.
func TestC04AnonDecryptTruncatedNeverPanics(t *testing.T) {
	suite := edwards25519.NewBlakeSHA256Ed25519()
	const n = 3

	for mine := 0; mine < n; mine++ {
		X := make([]kyber.Point, n)
		for i := range X {
			X[i] = suite.Point().Pick(suite.RandomStream())
		}
		x := suite.Scalar().Pick(suite.RandomStream())
		X[mine] = suite.Point().Mul(x, nil)

		C, err := Encrypt(suite, []byte("attack at dawn"), X)
		if err != nil {
			t.Fatal(err)
		}
		// sanity: the untouched ciphertext decrypts
		full := make([]byte, len(C))
		copy(full, C)
		if _, err := Decrypt(suite, full, X, mine, x); err != nil {
			t.Fatalf("mine=%d: genuine ciphertext rejected: %v", mine, err)
		}

		for l := 0; l < len(C); l++ {
			// what a receiver gets off the wire: a buffer of exactly l bytes
			buf := make([]byte, l)
			copy(buf, C[:l])

			func() {
				defer func() {
					if r := recover(); r != nil {
						t.Fatalf("mine=%d: Decrypt panicked on ciphertext truncated to %d/%d bytes: %v",
							mine, l, len(C), r)
					}
				}()
				if _, err := Decrypt(suite, buf, X, mine, x); err == nil {
					t.Fatalf("mine=%d: truncated ciphertext (%d/%d bytes) accepted", mine, l, len(C))
				}
			}()
		}
	}
}
