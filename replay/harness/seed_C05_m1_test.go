// place in: group/edwards25519/
//
// C05 demo: Point.Mul must compute the same result when the receiver is
// also the point operand, in variable-time mode just as in constant-time mode.

package edwards25519

import (
	"testing"

	"go.dedis.ch/kyber/v4"
)

func TestSeedC05VartimeMulInPlace(t *testing.T) {
	suite := NewBlakeSHA256Ed25519()
	rng := suite.XOF([]byte("c05-vartime-mul-alias"))

	for iter := 0; iter < 8; iter++ {
		s := suite.Scalar().Pick(rng)
		base := suite.Point().Pick(rng)

		// Reference: constant-time multiply into a fresh, unaliased receiver.
		want := suite.Point().Mul(s, base)

		// Variable-time multiply into a fresh receiver (no aliasing).
		fresh := suite.Point()
		fresh.(kyber.AllowsVarTime).AllowVarTime(true)
		fresh.Mul(s, base)
		if !fresh.Equal(want) {
			t.Fatalf("iter %d: vartime Mul (unaliased) differs from constant-time Mul", iter)
		}

		// Variable-time multiply where the receiver is also the operand.
		p := base.Clone()
		p.(kyber.AllowsVarTime).AllowVarTime(true)
		ret := p.Mul(s, p)
		if !p.Equal(want) {
			t.Fatalf("iter %d: vartime p.Mul(s, p) = %v, want %v", iter, p, want)
		}
		if !ret.Equal(p) {
			t.Fatalf("iter %d: returned value differs from receiver", iter)
		}
	}

	// Zero scalar still yields the identity, aliased or not.
	p := suite.Point().Pick(rng)
	p.(kyber.AllowsVarTime).AllowVarTime(true)
	p.Mul(suite.Scalar().Zero(), p)
	if !p.Equal(suite.Point().Null()) {
		t.Fatalf("vartime p.Mul(0, p) != identity")
	}
}
