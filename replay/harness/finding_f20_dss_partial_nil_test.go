package dss

// Replay of finding F20 (C12, DSS): ProcessPartialSig reads the index of the share of an incoming partial
// signature and hashes the share (before the signature over that hash can be checked) without checking
// that the share and its value are there; a partial signature taken from the network without them
// crashes the receiver instead of being rejected.
import (
	"testing"

	"go.dedis.ch/kyber/v4/share"
)

func gocvF20Recover(f func() error) (err error, p any) {
	defer func() { p = recover() }()
	return f(), nil
}

func TestGocvReplayF20(t *testing.T) {
	d := getDSS(0)
	if err, p := gocvF20Recover(func() error {
		return d.ProcessPartialSig(&PartialSig{Partial: nil, SessionID: d.sessionID, Signature: []byte("not a signature")})
	}); p != nil {
		t.Errorf("GOCV-REPRODUCED a partial signature without a share crashes the receiver: %v", p)
	} else if err == nil {
		t.Errorf("GOCV-REPRODUCED a partial signature without a share is accepted")
	}
	if err, p := gocvF20Recover(func() error {
		return d.ProcessPartialSig(&PartialSig{Partial: &share.PriShare{I: 1, V: nil}, SessionID: d.sessionID, Signature: []byte("not a signature")})
	}); p != nil {
		t.Errorf("GOCV-REPRODUCED a partial signature whose share has no value crashes the receiver: %v", p)
	} else if err == nil {
		t.Errorf("GOCV-REPRODUCED a partial signature whose share has no value is accepted")
	}
}
