package vss

// Replay of finding F17 (C10, Pedersen VSS): Aggregator.VerifyDeal dereferences the share of the deal it
// is given and multiplies by its value without checking them, and evaluates the polynomial of its
// commitments without checking those. A dealer that answers a complaint with a justification whose deal
// lacks the share value crashes every verifier instead of being marked bad; the exported VerifyDeal
// crashes on a deal without a share or with a nil commitment.
import (
	"testing"

	"go.dedis.ch/kyber/v4"
	"go.dedis.ch/kyber/v4/share"
)

func gocvF17Recover(f func() error) (err error, p any) {
	defer func() { p = recover() }()
	return f(), nil
}

func TestGocvReplayF17(t *testing.T) {
	dealer, verifiers := genAll()
	encs, _ := dealer.EncryptedDeals()
	if _, err := verifiers[1].ProcessEncryptedDeal(encs[1]); err != nil {
		t.Fatal(err)
	}
	// verifier 2 gets a bad share and complains
	dealer.deals[2].SecShare.V = suite.Scalar().Zero()
	encs2, _ := dealer.EncryptedDeals()
	r2, err := verifiers[2].ProcessEncryptedDeal(encs2[2])
	if err != nil || r2.StatusApproved {
		t.Fatalf("setup: %v %v", err, r2)
	}
	if err := verifiers[1].ProcessResponse(r2); err != nil {
		t.Fatal(err)
	}
	// the dealer answers with a justification whose deal has a share without a value
	d := *dealer.deals[2]
	d.SecShare = &share.PriShare{I: 2, V: nil}
	err, p := gocvF17Recover(func() error {
		return verifiers[1].ProcessJustification(&Justification{SessionID: dealer.sessionID, Index: 2, Deal: &d})
	})
	if p != nil {
		t.Errorf("GOCV-REPRODUCED a justification whose deal lacks the share value crashes the verifier: %v", p)
	} else if err == nil || !verifiers[1].badDealer {
		t.Errorf("GOCV-REPRODUCED a justification whose deal lacks the share value does not mark the dealer bad (err=%v)", err)
	}

	// the exported VerifyDeal on deals with missing parts
	agg := NewEmptyAggregator(suite, verifiersPub)
	if _, p := gocvF17Recover(func() error { return agg.VerifyDeal(&Deal{SessionID: dealer.sessionID, T: dealer.t}, false) }); p != nil {
		t.Errorf("GOCV-REPRODUCED VerifyDeal crashes on a deal without a share: %v", p)
	}
	agg = NewEmptyAggregator(suite, verifiersPub)
	d3 := *dealer.deals[1]
	d3.Commitments = append([]kyber.Point{}, d3.Commitments...)
	d3.Commitments[1] = nil
	if err, p := gocvF17Recover(func() error { return agg.VerifyDeal(&d3, false) }); p != nil {
		t.Errorf("GOCV-REPRODUCED VerifyDeal crashes on a deal with a nil commitment: %v", p)
	} else if err == nil {
		t.Errorf("GOCV-REPRODUCED VerifyDeal accepts a deal with a nil commitment")
	}
}
