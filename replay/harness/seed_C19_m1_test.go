// place in: xof/blake2xb/
package blake2xb

import (
	"bytes"
	"testing"
)

// Reseed must be a function of the XOF's stream position only: an XOF that
// produced its first 300 bytes through one large XORKeyStream call, one that
// produced them through Read, and a Clone taken just before the Reseed must
// all continue identically after Reseed.
func TestDemoReseedAfterLargeXORKeyStream(t *testing.T) {
	seed := []byte("demo seed")
	const n = 300 // > 128, the reseed key size

	// Reference: consume n bytes with Read, then reseed.
	ref := New(seed)
	if _, err := ref.Read(make([]byte, n)); err != nil {
		t.Fatal(err)
	}
	ref.Reseed()
	want := make([]byte, 64)
	if _, err := ref.Read(want); err != nil {
		t.Fatal(err)
	}

	// Same position reached via a single XORKeyStream of n bytes.
	x := New(seed)
	buf := make([]byte, n)
	x.XORKeyStream(buf, buf)
	c := x.Clone()
	x.Reseed()
	got := make([]byte, 64)
	if _, err := x.Read(got); err != nil {
		t.Fatal(err)
	}

	c.Reseed()
	gotClone := make([]byte, 64)
	if _, err := c.Read(gotClone); err != nil {
		t.Fatal(err)
	}

	if !bytes.Equal(got, want) {
		t.Fatalf("output after Reseed depends on how the earlier bytes were drawn:\n got %x\nwant %x", got, want)
	}
	if !bytes.Equal(gotClone, got) {
		t.Fatalf("clone diverges from original after Reseed:\n clone %x\n orig  %x", gotClone, got)
	}
}
