// place in: shuffle/
package shuffle

import (
	"testing"

	"go.dedis.ch/kyber/v4/group/edwards25519"
	"go.dedis.ch/kyber/v4/proof"
	"go.dedis.ch/kyber/v4/xof/blake2xb"
)

// C15 demo 1: an honest pair-shuffle proof must NOT verify against an output
// in which one ciphertext has been shifted by (+D, -D): the shifted pair no
// longer decrypts to any input plaintext, so the output is not a permutation
// of re-encryptions of the input.
func TestDemoC15PairShuffleCompensatedShift(t *testing.T) {
	for k := 2; k <= 6; k++ {
		suite := edwards25519.NewBlakeSHA256Ed25519WithRand(blake2xb.New([]byte{byte(k)}))
		rand := suite.RandomStream()
		h, c := setShuffleKeyPairs(rand, suite, k)
		x, y := elGamalEncryptPair(rand, suite, c, h, k)

		Xbar, Ybar, prover := Shuffle(suite, nil, h, x, y, rand)
		prf, err := proof.HashProve(suite, "PairShuffle", prover)
		if err != nil {
			t.Fatalf("k=%d: prove: %v", k, err)
		}

		// sanity: honest output verifies
		if err := proof.HashVerify(suite, "PairShuffle",
			Verifier(suite, nil, h, x, y, Xbar, Ybar), prf); err != nil {
			t.Fatalf("k=%d: honest shuffle rejected: %v", k, err)
		}

		for slot := 0; slot < k; slot++ {
			D := suite.Point().Pick(rand)
			Xf := append(Xbar[:0:0], Xbar...)
			Yf := append(Ybar[:0:0], Ybar...)
			Xf[slot] = suite.Point().Add(Xbar[slot], D)
			Yf[slot] = suite.Point().Sub(Ybar[slot], D)

			err := proof.HashVerify(suite, "PairShuffle",
				Verifier(suite, nil, h, x, y, Xf, Yf), prf)
			if err == nil {
				t.Fatalf("k=%d slot=%d: verifier accepted an output whose "+
					"ciphertext was altered by (+D,-D)", k, slot)
			}
		}
	}
}
