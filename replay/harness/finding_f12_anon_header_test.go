package anon

// Replay for obligation sign/anon.header::writes-fresh:anon.header/loop1/E!Int (property C16):
// header() appends onto its argument xb1. In decryptKey xb1 is a prefix slice of the caller's
// ciphertext, so the regenerated header is written over the ciphertext itself and then compared
// with itself: an altered header slot of another recipient is accepted.

import (
	"testing"

	"go.dedis.ch/kyber/v4"
	"go.dedis.ch/kyber/v4/group/edwards25519"
)

func TestGocvReplayF12(t *testing.T) {
	suite := edwards25519.NewBlakeSHA256Ed25519()
	n := 3
	privs := make([]kyber.Scalar, n)
	set := make(Set, n)
	for i := range privs {
		privs[i] = suite.Scalar().Pick(suite.RandomStream())
		set[i] = suite.Point().Mul(privs[i], nil)
	}
	msg := []byte("gocv replay F12")
	ct, err := Encrypt(suite, msg, set)
	if err != nil {
		t.Skip("setup failed: ", err)
	}
	// alter the header slot of recipient 2, then decrypt as recipient 0
	tampered := append([]byte(nil), ct...)
	off := suite.PointLen() + 2*suite.ScalarLen()
	tampered[off] ^= 0x01
	before := append([]byte(nil), tampered...)
	got, err := Decrypt(suite, tampered, set, 0, privs[0])
	if err == nil {
		t.Fatalf("REPRODUCED: ciphertext with an altered header slot decrypts without error (plaintext %q); input buffer rewritten: %v", got, string(before) != string(tampered))
	}
}
