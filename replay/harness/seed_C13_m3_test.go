package pvss

import (
	"testing"

	"github.com/stretchr/testify/require"
	"go.dedis.ch/kyber/v4/proof/dleq"
	"go.dedis.ch/kyber/v4/share"
)

// TestDemoC13M3ForgedDecShare builds a decrypted share for a value the trustee
// never decrypted, with a "proof" whose challenge and response are picked
// freely and whose commitments are solved from the two verification equations
// (no knowledge of the trustee's private key is needed). Such a share must be
// rejected because its challenge is not the hash of the transcript, it must be
// left out of the batch result and must not count towards the threshold.
func TestDemoC13M3ForgedDecShare(test *testing.T) {
	n := uint32(4)
	t := uint32(3)
	conf := getConfig(n, t)
	suite := conf.suite
	G := suite.Point().Base()

	secret := suite.Scalar().Pick(suite.RandomStream())
	pubPoly, encShares, sH, err := EncryptAndShare(conf, secret)
	require.NoError(test, err)
	ked, err := ComputeKED(conf, n, pubPoly, encShares, sH)
	require.NoError(test, err)
	require.Len(test, ked.D, int(n))

	// forge the decrypted share of trustee 0 using public data only
	forge := func(i int) *PubVerShare {
		V := suite.Point().Pick(suite.RandomStream()) // not the real share
		c := suite.Scalar().Pick(suite.RandomStream())
		r := suite.Scalar().Pick(suite.RandomStream())
		vG := suite.Point().Add(suite.Point().Mul(r, G), suite.Point().Mul(c, ked.K[i]))
		vH := suite.Point().Add(suite.Point().Mul(r, V), suite.Point().Mul(c, ked.E[i].S.V))
		return &PubVerShare{
			S: share.PubShare{I: ked.E[i].S.I, V: V},
			P: dleq.Proof{C: c, R: r, VG: vG, VH: vH},
		}
	}
	forged := forge(0)
	require.False(test, forged.S.V.Equal(ked.D[0].S.V))

	// the honest share verifies, the forged one must not
	require.NoError(test, VerifyDecShare(suite, G, ked.K[0], ked.E[0], ked.D[0]))
	require.Error(test, VerifyDecShare(suite, G, ked.K[0], ked.E[0], forged),
		"forged decrypted share with a free challenge verified")

	// the batch result excludes it
	D := []*PubVerShare{forged, ked.D[1], ked.D[2], ked.D[3]}
	good, err := VerifyDecShareBatch(suite, G, ked.K, ked.E, D)
	require.NoError(test, err)
	require.Len(test, good, int(n)-1)
	for _, d := range good {
		require.NotSame(test, forged, d)
	}

	// recovery still works from the t honest shares that remain
	recovered, err := RecoverSecret(suite, G, ked.K, ked.E, D, t, n)
	require.NoError(test, err)
	require.True(test, suite.Point().Mul(secret, nil).Equal(recovered))

	// t-1 honest shares plus one forged share is fewer than t valid shares
	_, err = RecoverSecret(suite, G, ked.K[:3], ked.E[:3], D[:3], t, n)
	require.ErrorIs(test, err, ErrTooFewShares)
}
