// place in: share/dkg/pedersen/
package dkg

import (
	"testing"

	"github.com/stretchr/testify/require"

	"go.dedis.ch/kyber/v4/group/edwards25519"
	"go.dedis.ch/kyber/v4/sign/schnorr"
)

// Resharing from a small group (n=3, t=2) to a larger one (n=6, t=4). Two of the
// new share holders (n-t = 2 faulty parties) broadcast a FALSE complaint against
// the honest old dealer 0. Two complaints is below the threshold (4) of the
// polynomials dealt in this run, so dealer 0 must simply justify and stay
// qualified; all honest nodes must complete with the unchanged key.
func TestDemoC11ResharingGrowingGroupFalseComplaints(t *testing.T) {
	oldN := uint32(3)
	oldT := uint32(2)
	suite := edwards25519.NewBlakeSHA256Ed25519()
	tns := GenerateTestNodes(suite, oldN)
	list := NodesFromTest(tns)
	conf := Config{
		Suite:     suite,
		NewNodes:  list,
		Threshold: oldT,
		Auth:      schnorr.NewScheme(suite),
	}
	results := RunDKG(t, tns, conf, nil, nil, nil)
	require.Len(t, results, int(oldN))
	for i, tn := range tns {
		tn.res = results[i]
	}
	testResults(t, suite, oldT, oldN, results)
	oldKey := results[0].Key.Public()

	// new group: the 3 old nodes (same indices) + 3 fresh nodes
	newN := uint32(6)
	newT := uint32(4)
	newTns := make([]*TestNode, 0, newN)
	newTns = append(newTns, tns...)
	for i := oldN; i < newN; i++ {
		newTns = append(newTns, NewTestNode(suite, i))
	}
	newList := NodesFromTest(newTns)
	newConf := &Config{
		Suite:        suite,
		NewNodes:     newList,
		OldNodes:     list,
		Threshold:    newT,
		OldThreshold: oldT,
		Auth:         schnorr.NewScheme(suite),
	}
	SetupReshareNodes(newTns, newConf, tns[0].res.Key.Commits)

	var deals []*DealBundle
	for _, node := range newTns {
		if node.res == nil {
			continue
		}
		d, err := node.dkg.Deals()
		require.NoError(t, err)
		deals = append(deals, d)
	}

	for _, node := range newTns {
		resp, err := node.dkg.ProcessDeals(deals)
		require.NoError(t, err)
		// every deal is valid: nobody has anything to complain about
		require.Nil(t, resp)
	}

	// faulty new share holders 4 and 5 falsely accuse the honest dealer 0
	nonce := newTns[0].dkg.c.Nonce
	isFaulty := func(i uint32) bool { return i == 4 || i == 5 }
	var responses []*ResponseBundle
	for _, idx := range []uint32{4, 5} {
		responses = append(responses, &ResponseBundle{
			ShareIndex: idx,
			Responses:  []Response{{DealerIndex: 0, Status: Complaint}},
			SessionID:  nonce,
		})
	}

	var justifs []*JustificationBundle
	for _, node := range newTns {
		res, just, err := node.dkg.ProcessResponses(responses)
		if isFaulty(node.Index) {
			continue
		}
		require.NoError(t, err, "honest node %d must not fail in the response phase", node.Index)
		require.Nil(t, res)
		if just != nil {
			justifs = append(justifs, just)
		}
	}
	// the honest dealer 0 answers the two false complaints
	require.Len(t, justifs, 1)
	require.Equal(t, Index(0), justifs[0].DealerIndex)

	var honest []*Result
	for _, node := range newTns {
		if isFaulty(node.Index) {
			continue
		}
		res, err := node.dkg.ProcessJustifications(justifs)
		require.NoError(t, err, "honest node %d must complete", node.Index)
		require.NotNil(t, res)
		honest = append(honest, res)
	}
	require.Len(t, honest, 4)

	for _, res := range honest {
		require.True(t, honest[0].PublicEqual(res))
		// the honest dealer 0 (fewer than t complaints, all justified) stays qualified
		var found bool
		for _, q := range res.QUAL {
			found = found || q.Index == 0
		}
		require.True(t, found, "honest dealer 0 was disqualified: QUAL %v", res.QUAL)
		// resharing keeps the distributed key
		require.True(t, oldKey.Equal(res.Key.Public()))
	}
	testResults(t, suite, newT, newN, honest)
}
