package dkg

// Battery for the packet sets of the Protocol driver (property C11: de-duplicated packets per sender with
// equivocation detection). Written for the replay harness; it passes on the unchanged tree.
import "testing"

func TestGocvBatteryPacketSet(t *testing.T) {
	a := &ResponseBundle{ShareIndex: 3, Responses: []Response{{DealerIndex: 1, Status: Complaint}}, SessionID: []byte("sid")}
	a2 := &ResponseBundle{ShareIndex: 3, Responses: []Response{{DealerIndex: 1, Status: Complaint}}, SessionID: []byte("sid")}
	b := &ResponseBundle{ShareIndex: 3, Responses: []Response{{DealerIndex: 2, Status: Complaint}}, SessionID: []byte("sid")}
	c := &ResponseBundle{ShareIndex: 4, Responses: []Response{{DealerIndex: 2, Status: Complaint}}, SessionID: []byte("sid")}
	s := newSet()
	s.Push(a)
	if len(s.vals) != 1 || s.vals[3] != Packet(a) || len(s.bad) != 0 {
		t.Fatalf("GOCV-REPRODUCED the first packet of a sender is not recorded: %v %v", s.vals, s.bad)
	}
	s.Push(a2)
	if len(s.vals) != 1 || s.vals[3] != Packet(a) || len(s.bad) != 0 {
		t.Fatalf("GOCV-REPRODUCED a re-broadcast of the same packet changes the set: %v %v", s.vals, s.bad)
	}
	s.Push(c)
	s.Push(b)
	if _, still := s.vals[3]; still || len(s.bad) != 1 || s.bad[0] != 3 || len(s.vals) != 1 {
		t.Fatalf("GOCV-REPRODUCED a sender of two different packets is not evicted: %v %v", s.vals, s.bad)
	}
	s.Push(a)
	if _, back := s.vals[3]; back || len(s.bad) != 1 {
		t.Fatalf("GOCV-REPRODUCED an evicted sender gets a packet recorded again: %v %v", s.vals, s.bad)
	}
}
