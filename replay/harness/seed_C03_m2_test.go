// place in: group/edwards25519/
package edwards25519

import (
	"bytes"
	"io"
	"testing"
	"testing/iotest"
)

// Property C03: UnmarshalFrom carries exactly the bytes of UnmarshalBinary.
// The io.Reader contract allows a Read to return fewer bytes than requested
// (sockets, pipes, chunked/multi readers), so the stream path must behave the
// same as the binary path no matter how the reader slices the encoding.
func TestSeedC03StreamDecodeMatchesBinaryDecode(t *testing.T) {
	suite := NewBlakeSHA256Ed25519()

	for i := 0; i < 4; i++ {
		s := suite.Scalar().Pick(suite.RandomStream())
		enc, err := s.MarshalBinary()
		if err != nil {
			t.Fatal(err)
		}
		if len(enc) != s.MarshalSize() {
			t.Fatalf("encoding has %d bytes, want %d", len(enc), s.MarshalSize())
		}

		want := suite.Scalar()
		if err := want.UnmarshalBinary(enc); err != nil {
			t.Fatal(err)
		}

		readers := map[string]io.Reader{
			"whole":   bytes.NewReader(enc),
			"halves":  io.MultiReader(bytes.NewReader(enc[:16]), bytes.NewReader(enc[16:])),
			"half":    iotest.HalfReader(bytes.NewReader(enc)),
			"onebyte": iotest.OneByteReader(bytes.NewReader(enc)),
		}
		for name, r := range readers {
			got := suite.Scalar()
			n, err := got.UnmarshalFrom(r)
			if err != nil {
				t.Errorf("%s: UnmarshalFrom failed: %v", name, err)
				continue
			}
			if n != len(enc) {
				t.Errorf("%s: UnmarshalFrom consumed %d bytes, want %d", name, n, len(enc))
			}
			if !got.Equal(want) || !got.Equal(s) {
				t.Errorf("%s: stream decode %v differs from binary decode %v", name, got, want)
			}
			re, _ := got.MarshalBinary()
			if !bytes.Equal(re, enc) {
				t.Errorf("%s: re-encoding after stream decode is not byte-identical", name)
			}
		}
	}
}
