package schnorr

import (
	"crypto/sha512"
	"encoding/binary"
	"testing"

	"github.com/stretchr/testify/require"
	"go.dedis.ch/kyber/v4/group/edwards25519"
)

// TestDemoC08M3SmallOrderPublicKeyForgery shows that a Schnorr signature over
// Ed25519 must never verify under a small-order public key. For such a "key" A
// anybody can produce accepted signatures without any secret: pick s, set
// R = s*B and search a message for which h*A is the identity (1 in 8 tries).
func TestDemoC08M3SmallOrderPublicKeyForgery(t *testing.T) {
	suite := edwards25519.NewBlakeSHA256Ed25519()

	// A point of order 8 in canonical encoding.
	smallOrderPk := []byte{0xc7, 0x17, 0x6a, 0x70, 0x3d, 0x4d, 0xd8, 0x4f, 0xba, 0x3c, 0x0b,
		0x76, 0x0d, 0x10, 0x67, 0x0f, 0x2a, 0x20, 0x53, 0xfa, 0x2c, 0x39,
		0xcc, 0xc6, 0x4e, 0xc7, 0xfd, 0x77, 0x92, 0xac, 0x03, 0x7a}
	A := suite.Point()
	require.NoError(t, A.UnmarshalBinary(smallOrderPk))
	identity := suite.Point().Null()
	require.False(t, A.Equal(identity))

	// Nobody knows a discrete log for A, yet we can build (R, s) so that
	// s*B == R + h*A for a chosen message.
	s := suite.Scalar().Pick(suite.RandomStream())
	R := suite.Point().Mul(s, nil)
	Rb, err := R.MarshalBinary()
	require.NoError(t, err)
	sb, err := s.MarshalBinary()
	require.NoError(t, err)
	sig := append(append([]byte{}, Rb...), sb...)

	var msg []byte
	found := false
	for ctr := uint32(0); ctr < 4096; ctr++ {
		msg = binary.BigEndian.AppendUint32([]byte("forged message "), ctr)
		hh := sha512.New()
		hh.Write(Rb)
		hh.Write(smallOrderPk)
		hh.Write(msg)
		h := suite.Scalar().SetBytes(hh.Sum(nil))
		if suite.Point().Mul(h, A).Equal(identity) {
			found = true
			break
		}
	}
	require.True(t, found, "no suitable message found")

	// Both entry points must refuse the small-order key.
	require.Error(t, VerifyWithChecks(suite, smallOrderPk, msg, sig),
		"forged signature accepted under a small-order public key")
	require.Error(t, Verify(suite, A, msg, sig),
		"forged signature accepted under a small-order public key")

	// And an honest signature must not be transferable to the small-order key either.
	priv := suite.Scalar().Pick(suite.RandomStream())
	honest, err := Sign(suite, priv, []byte("hello"))
	require.NoError(t, err)
	require.NoError(t, Verify(suite, suite.Point().Mul(priv, nil), []byte("hello"), honest))
	err = VerifyWithChecks(suite, smallOrderPk, []byte("hello"), honest)
	require.EqualError(t, err, "public key has small order")
}
