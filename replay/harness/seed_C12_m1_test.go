// place in: sign/dss/
package dss

import (
	"testing"

	"github.com/stretchr/testify/require"
	"go.dedis.ch/kyber/v4/share"
	"go.dedis.ch/kyber/v4/sign/schnorr"
)

// C12: a partial signature that carries an out-of-range index is rejected
// (with ErrInvalidSignatureIndex) and never contributes. The smallest
// out-of-range index is n = len(participants); the existing tests only use
// 100 and MaxUint32.
func TestDemoC12FirstOutOfRangeIndexRejected(t *testing.T) {
	d := getDSS(1)
	_, err := d.PartialSig()
	require.NoError(t, err)

	// an otherwise well-formed partial from participant 3, re-labelled with
	// index n and re-signed by its (malicious) author
	ps, err := getDSS(3).PartialSig()
	require.NoError(t, err)
	bad := &PartialSig{
		Partial:   &share.PriShare{I: nbParticipants, V: ps.Partial.V},
		SessionID: ps.SessionID,
	}
	bad.Signature, err = schnorr.Sign(suite, partSec[3], bad.Hash(suite))
	require.NoError(t, err)

	before := len(d.partials)
	require.NotPanics(t, func() { err = d.ProcessPartialSig(bad) },
		"partial with index n crashed the combiner instead of being rejected")
	require.ErrorIs(t, err, ErrInvalidSignatureIndex)
	require.Len(t, d.partials, before)
}
