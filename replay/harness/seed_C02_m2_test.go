// place in: group/mod/
package mod

import (
	"math"
	"math/big"
	"testing"

	"go.dedis.ch/kyber/v4/compatible/compatiblemod"
)

// SetInt64 must compute v mod q for every int64 v, including the extreme
// values of the int64 range, and leave the scalar in canonical reduced form.
func TestC02SetInt64MatchesIntegersModOrder(t *testing.T) {
	p256N, _ := new(big.Int).SetString("ffffffff00000000ffffffffffffffffbce6faada7179e84f3b9cac2fc632551", 16)
	bls12381R, _ := new(big.Int).SetString("73eda753299d7d483339d80809a1d80553bda402fffe5bfeffffffff00000001", 16)
	moduli := []*big.Int{
		p256N,
		bls12381R,
		new(big.Int).Sub(new(big.Int).Lsh(big.NewInt(1), 127), big.NewInt(1)), // 2^127-1
		big.NewInt(1000003),
	}
	values := []int64{
		0, 1, -1, 2, -2, 255, -255, 1 << 32, -(1 << 32),
		math.MaxInt64, math.MaxInt64 - 1,
		math.MinInt64 + 1, math.MinInt64,
	}
	for _, q := range moduli {
		m := compatiblemod.FromBigInt(q)
		for _, v := range values {
			want := new(big.Int).Mod(big.NewInt(v), q) // Euclidean: in [0,q)

			s := NewInt64(7, m)
			s.SetInt64(v)
			if s.V.Int.Sign() < 0 || s.V.Int.Cmp(q) >= 0 {
				t.Errorf("q=%v: SetInt64(%d) = %v is not in [0,q)", q, v, &s.V.Int)
			}
			if s.V.Int.Cmp(want) != 0 {
				t.Errorf("q=%v: SetInt64(%d) = %v, want %v", q, v, &s.V.Int, want)
			}
			// adding the model-computed additive inverse must give zero
			negWant := new(big.Int).Neg(big.NewInt(v))
			negWant.Mod(negWant, q)
			other := NewIntBytes(negWant.Bytes(), m, s.BO)
			if !NewInt64(0, m).Add(s, other).Equal(NewInt64(0, m)) {
				t.Errorf("q=%v: SetInt64(%d) + (-(%d) mod q) != 0", q, v, v)
			}
		}
	}
}
