package shuffle

import (
	"testing"

	"go.dedis.ch/kyber/v4"
	"go.dedis.ch/kyber/v4/group/edwards25519"
	"go.dedis.ch/kyber/v4/proof"
	"go.dedis.ch/kyber/v4/xof/blake2xb"
)

// demoC15M3ForgedProve is a dishonest pair-shuffle prover. Its claimed output
// is NOT a permutation of re-encryptions of the input: the first output pair
// is the sum of the first two input pairs (plus blinding), i.e.
//
//	Xbar[0] = X[0] + X[1] + beta[0]*G      Ybar[0] = Y[0] + Y[1] + beta[0]*H
//	Xbar[i] = X[i]        + beta[i]*G      Ybar[i] = Y[i]        + beta[i]*H   (i >= 1)
//
// It runs the honest protocol for the identity permutation, except that the
// responses sigma and tau of step 5 are chosen after seeing the challenge rho
// so that the final equations (34)/(35) hold for the combined output. Those
// responses do not satisfy equation (33), sigma[i]*Gamma == W[i] + D[i], which
// is what a sound verifier rejects on.
func demoC15M3ForgedProve(ps *PairShuffle, G, H kyber.Point,
	beta []kyber.Scalar, ctx proof.ProverContext) error {

	grp := ps.grp
	k := ps.k
	p1 := &ps.p1
	z := grp.Scalar()

	u := make([]kyber.Scalar, k)
	w := make([]kyber.Scalar, k)
	a := make([]kyber.Scalar, k)
	var l0, gamma kyber.Scalar
	if err := ctx.PriRand(u, w, a, &l0, &gamma); err != nil {
		return err
	}

	// P step 1 (identity permutation; Lambda commits to nothing but l0)
	p1.Gamma = grp.Point().Mul(gamma, G)
	for i := range k {
		p1.A[i] = grp.Point().Mul(a[i], G)
		p1.C[i] = grp.Point().Mul(z.Mul(gamma, a[i]), G)
		p1.U[i] = grp.Point().Mul(u[i], G)
		p1.W[i] = grp.Point().Mul(z.Mul(gamma, w[i]), G)
	}
	p1.Lambda1 = grp.Point().Mul(l0, G)
	p1.Lambda2 = grp.Point().Mul(l0, H)
	if err := ctx.Put(p1); err != nil {
		return err
	}

	// V step 2
	v2 := &ps.v2
	if err := ctx.PubRand(v2); err != nil {
		return err
	}

	// P step 3
	p3 := &ps.p3
	b := make([]kyber.Scalar, k)
	for i := range k {
		b[i] = grp.Scalar().Sub(v2.Zrho[i], u[i])
		p3.D[i] = grp.Point().Mul(z.Mul(gamma, b[i]), G)
	}
	if err := ctx.Put(p3); err != nil {
		return err
	}

	// V step 4
	v4 := &ps.v4
	if err := ctx.PubRand(v4); err != nil {
		return err
	}

	// P step 5: sigma = rho * M^-1 for the mixing matrix M of the output
	p5 := &ps.p5
	for i := range k {
		p5.Zsigma[i] = grp.Scalar().Set(v2.Zrho[i])
	}
	p5.Zsigma[1] = grp.Scalar().Sub(v2.Zrho[1], v2.Zrho[0])
	p5.Ztau = grp.Scalar().Neg(l0)
	for i := range k {
		p5.Ztau.Add(p5.Ztau, z.Mul(p5.Zsigma[i], beta[i]))
	}
	if err := ctx.Put(p5); err != nil {
		return err
	}

	// P,V step 6: honest simple shuffle over (R_i, S_i)
	r := make([]kyber.Scalar, k)
	s := make([]kyber.Scalar, k)
	for i := range k {
		r[i] = grp.Scalar().Add(a[i], z.Mul(v4.Zlambda, b[i]))
		s[i] = grp.Scalar().Mul(gamma, r[i])
	}
	return ps.pv6.Prove(G, gamma, r, s, nil, ctx)
}

func TestDemoC15M3LinearCombinationRejected(t *testing.T) {
	for _, k := range []int{2, 3, 5} {
		suite := edwards25519.NewBlakeSHA256Ed25519WithRand(blake2xb.New([]byte("demo-c15-m3")))
		rand := suite.RandomStream()

		h, c := setShuffleKeyPairs(rand, suite, k)
		X, Y := elGamalEncryptPair(rand, suite, c, h, k)
		G := suite.Point().Base()
		H := h

		// Sanity: an honest shuffle verifies.
		xh, yh, hp := Shuffle(suite, nil, H, X, Y, rand)
		hprf, err := proof.HashProve(suite, "PairShuffle", hp)
		if err != nil {
			t.Fatalf("k=%d: honest prove: %v", k, err)
		}
		if err := proof.HashVerify(suite, "PairShuffle",
			Verifier(suite, nil, H, X, Y, xh, yh), hprf); err != nil {
			t.Fatalf("k=%d: honest shuffle must verify: %v", k, err)
		}

		// Claimed output that merges the first two ciphertexts.
		beta := make([]kyber.Scalar, k)
		Xbar := make([]kyber.Point, k)
		Ybar := make([]kyber.Point, k)
		for i := range k {
			beta[i] = suite.Scalar().Pick(rand)
			Xbar[i] = suite.Point().Add(suite.Point().Mul(beta[i], G), X[i])
			Ybar[i] = suite.Point().Add(suite.Point().Mul(beta[i], H), Y[i])
		}
		Xbar[0].Add(Xbar[0], X[1])
		Ybar[0].Add(Ybar[0], Y[1])

		ps := PairShuffle{}
		ps.Init(suite, k)
		forger := proof.Prover(func(ctx proof.ProverContext) error {
			return demoC15M3ForgedProve(&ps, G, H, beta, ctx)
		})
		prf, err := proof.HashProve(suite, "PairShuffle", forger)
		if err != nil {
			t.Fatalf("k=%d: forged prove: %v", k, err)
		}

		err = proof.HashVerify(suite, "PairShuffle",
			Verifier(suite, nil, H, X, Y, Xbar, Ybar), prf)
		if err == nil {
			t.Errorf("k=%d: proof verified for an output that linearly combines "+
				"two input ciphertexts (not a permutation of re-encryptions)", k)
		}
	}
}
