// place in: encrypt/ibe/
package ibe

import (
	"bytes"
	"crypto/rand"
	"testing"

	"github.com/stretchr/testify/require"
)

// For every accepted message length (0 .. hash size), on both group
// assignments, the CCA scheme must round-trip and must reject every
// single-bit alteration of the V and W components of the ciphertext.
func TestSeedC16IBECCARejectsEveryBitFlip(t *testing.T) {
	for setting := uint(1); setting <= 2; setting++ {
		suite, Ppub, ID, sQid, encrypt, decrypt := newSetting(setting)
		max := suite.Hash().Size()
		for _, l := range []int{0, 1, 12, 16, 17, 24, max - 1, max} {
			msg := make([]byte, l)
			_, err := rand.Read(msg)
			require.NoError(t, err)

			c, err := encrypt(suite, Ppub, ID, msg)
			require.NoError(t, err, "setting %d len %d", setting, l)
			got, err := decrypt(suite, sQid, c)
			require.NoError(t, err, "setting %d len %d", setting, l)
			require.True(t, bytes.Equal(msg, got), "setting %d len %d: round trip", setting, l)

			for bit := 0; bit < 8*l; bit++ {
				// alter the body W
				cw := &Ciphertext{U: c.U, V: append([]byte{}, c.V...), W: append([]byte{}, c.W...)}
				cw.W[bit/8] ^= 1 << uint(bit%8)
				m, err := decrypt(suite, sQid, cw)
				if err == nil {
					t.Fatalf("setting %d len %d: flipping bit %d of W accepted (plaintext changed: %v)",
						setting, l, bit, !bytes.Equal(m, msg))
				}
				// alter the header V
				cv := &Ciphertext{U: c.U, V: append([]byte{}, c.V...), W: append([]byte{}, c.W...)}
				cv.V[bit/8] ^= 1 << uint(bit%8)
				m, err = decrypt(suite, sQid, cv)
				if err == nil {
					t.Fatalf("setting %d len %d: flipping bit %d of V accepted (plaintext changed: %v)",
						setting, l, bit, !bytes.Equal(m, msg))
				}
			}
		}
	}
}
