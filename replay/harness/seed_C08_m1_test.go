// place in: sign/eddsa/
package eddsa

import (
	"crypto/ed25519"
	"encoding/hex"
	"testing"

	"github.com/stretchr/testify/require"
	"go.dedis.ch/kyber/v4/group/edwards25519"
)

// TestDemoSmallOrderNegativeX checks that small-order points are rejected as
// public key and as R for BOTH x-signs of their encoding, not only for the
// "positive" encodings that are listed in the weak-key table.
func TestDemoSmallOrderNegativeX(t *testing.T) {
	type smallOrder interface{ HasSmallOrder() bool }

	// order-8 and order-4 points as listed in the weak key table (sign bit clear)
	listed := []string{
		"26e8958fc2b227b045c3f489f2ef98f0d5dfac05d3c63339b13802886d53fc05",
		"c7176a703d4dd84fba3c0b760d10670f2a2053fa2c39ccc64ec7fd7792ac037a",
		"0000000000000000000000000000000000000000000000000000000000000000",
	}

	suite := edwards25519.NewBlakeSHA256Ed25519()
	for _, h := range listed {
		b, err := hex.DecodeString(h)
		require.NoError(t, err)
		P := group.Point()
		require.NoError(t, P.UnmarshalBinary(b))

		// -P has the same y and the opposite x-sign (top bit of the encoding)
		N := group.Point().Neg(P)
		nb, err := N.MarshalBinary()
		require.NoError(t, err)
		require.Equal(t, byte(0x80), nb[31]&0x80, "negated point must carry the sign bit")
		require.True(t, N.(smallOrder).HasSmallOrder(),
			"small-order point %x not recognised", nb)

		// An attacker that owns no secret can make (R=rB, S=r) verify under a
		// small-order key A as soon as h*A == 0, i.e. for about 1 message in 8.
		r := suite.Scalar().Pick(suite.RandomStream())
		R := suite.Point().Mul(r, nil)
		Rb, _ := R.MarshalBinary()
		rb, _ := r.MarshalBinary()
		sig := append(append([]byte{}, Rb...), rb...)
		accepted := 0
		for i := 0; i < 256; i++ {
			msg := []byte{byte(i), 'm', 's', 'g'}
			err := VerifyWithChecks(nb, msg, sig)
			require.ErrorIs(t, err, ErrPKSmallOrder, "key %x msg %d", nb, i)
			if ed25519.Verify(ed25519.PublicKey(nb), msg, sig) {
				accepted++
			}
		}
		// sanity: the forgery is real for the reference verifier (which has no
		// small-order check), so the rejection above is what protects kyber.
		require.Greater(t, accepted, 0)

		// the same point used as R must be rejected as well
		ed := NewEdDSA(suite.RandomStream())
		msg := []byte("small order R")
		good, err := ed.Sign(msg)
		require.NoError(t, err)
		copy(good[:32], nb)
		require.ErrorIs(t, Verify(ed.Public, msg, good), ErrPointRSmallOrder)
	}
}
