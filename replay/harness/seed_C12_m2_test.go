// place in: sign/dss/
package dss

import (
	"testing"

	"github.com/stretchr/testify/require"
)

// C12: a duplicated partial signature is rejected and never contributes, and
// no signature is announced/produced from fewer than t distinct partials.
// Here the duplicate is the participant's own partial coming back to it
// (e.g. echoed by the broadcast layer).
func TestDemoC12OwnPartialEchoIsDuplicate(t *testing.T) {
	d := getDSS(2)
	own, err := d.PartialSig()
	require.NoError(t, err)

	// t-2 other participants -> t-1 distinct partials in total
	for _, j := range []uint32{5, 0}[:int(d.T)-2] {
		ps, err := getDSS(j).PartialSig()
		require.NoError(t, err)
		require.NoError(t, d.ProcessPartialSig(ps))
	}
	require.False(t, d.EnoughPartialSig())

	// own partial echoed back: must be rejected as a duplicate
	require.Error(t, d.ProcessPartialSig(own), "own partial echoed back was accepted a second time")
	require.Len(t, d.partials, int(d.T)-1)
	require.False(t, d.EnoughPartialSig(), "threshold reported as reached with only t-1 distinct partials")
	sig, err := d.Signature()
	require.Error(t, err)
	require.Nil(t, sig)
}
