// place in: share/vss/rabin/
//
// C10 demo: an invalid justification must mark the dealer bad for good. A later
// valid justification (for the same complaint) clears the complaint but must
// never make the deal certified again.
package vss_test

import (
	"testing"

	"go.dedis.ch/kyber/v4"
	"go.dedis.ch/kyber/v4/group/edwards25519"
	"go.dedis.ch/kyber/v4/share"
	vss "go.dedis.ch/kyber/v4/share/vss/rabin"
)

func TestC10DemoBadJustificationIsSticky(t *testing.T) {
	suite := edwards25519.NewBlakeSHA256Ed25519()
	const n = 4
	const thr = 3

	secs := make([]kyber.Scalar, n)
	pubs := make([]kyber.Point, n)
	for i := range secs {
		secs[i] = suite.Scalar().Pick(suite.RandomStream())
		pubs[i] = suite.Point().Mul(secs[i], nil)
	}
	dealerSec := suite.Scalar().Pick(suite.RandomStream())
	dealerPub := suite.Point().Mul(dealerSec, nil)
	secret := suite.Scalar().Pick(suite.RandomStream())

	dealer, err := vss.NewDealer(suite, dealerSec, secret, pubs, thr)
	if err != nil {
		t.Fatal(err)
	}
	verifiers := make([]*vss.Verifier, n)
	for i := range verifiers {
		verifiers[i], err = vss.NewVerifier(suite, secs[i], dealerPub, pubs)
		if err != nil {
			t.Fatal(err)
		}
	}

	// verifier 0 receives a corrupted share, everybody else an honest one
	plain0, err := dealer.PlaintextDeal(0)
	if err != nil {
		t.Fatal(err)
	}
	goodV := plain0.SecShare.V
	plain0.SecShare.V = suite.Scalar().Add(goodV, suite.Scalar().One())
	encDeals, err := dealer.EncryptedDeals()
	if err != nil {
		t.Fatal(err)
	}
	plain0.SecShare.V = goodV

	resps := make([]*vss.Response, n)
	for i, v := range verifiers {
		resps[i], err = v.ProcessEncryptedDeal(encDeals[i])
		if err != nil {
			t.Fatal(err)
		}
	}
	if resps[0].Approved {
		t.Fatal("verifier 0 should complain about a corrupted share")
	}
	for i := 1; i < n; i++ {
		if !resps[i].Approved {
			t.Fatalf("verifier %d should approve", i)
		}
	}

	// broadcast all the responses
	var goodJ *vss.Justification
	for _, r := range resps {
		for i, v := range verifiers {
			if uint32(i) == r.Index {
				continue
			}
			rc := *r // every receiver gets its own copy of the message
			if err := v.ProcessResponse(&rc); err != nil {
				t.Fatal(err)
			}
		}
		rc := *r
		j, err := dealer.ProcessResponse(&rc)
		if err != nil {
			t.Fatal(err)
		}
		if j != nil {
			goodJ = j
		}
	}
	if goodJ == nil {
		t.Fatal("dealer should have produced a justification")
	}

	// the dealer first broadcasts an invalid justification ...
	badJ := &vss.Justification{
		SessionID: goodJ.SessionID,
		Index:     goodJ.Index,
		Deal: &vss.Deal{
			SessionID: goodJ.Deal.SessionID,
			SecShare: &share.PriShare{
				I: goodJ.Deal.SecShare.I,
				V: suite.Scalar().Add(goodJ.Deal.SecShare.V, suite.Scalar().One()),
			},
			RndShare:    goodJ.Deal.RndShare,
			T:           goodJ.Deal.T,
			Commitments: goodJ.Deal.Commitments,
		},
		Signature: goodJ.Signature,
	}
	for i, v := range verifiers {
		if err := v.ProcessJustification(badJ); err == nil {
			t.Fatalf("verifier %d accepted an invalid justification", i)
		}
		if v.DealCertified() {
			t.Fatalf("verifier %d: certified right after an invalid justification", i)
		}
	}

	// ... and then the correct one. The complaint is cleared, but the dealer
	// has been caught cheating: the deal must never become certified.
	for i, v := range verifiers {
		if err := v.ProcessJustification(goodJ); err != nil {
			t.Fatalf("verifier %d rejected a valid justification: %v", i, err)
		}
	}
	for i, v := range verifiers {
		if v.DealCertified() {
			t.Errorf("verifier %d: deal certified although the dealer produced an invalid justification", i)
		}
		if v.Deal() != nil {
			t.Errorf("verifier %d: Deal() released although the dealer produced an invalid justification", i)
		}
	}
}
