package vss

// Replay for obligation
//   share/vss/pedersen.Aggregator.verifyJustification::ensures:share_on_stored_commitments
//   share/vss/pedersen.Aggregator.verifyJustification::ensures:share_index_matches
// (property C10). A dealer hands verifier 1 a share that is off the committed polynomial,
// verifier 1 complains, and the dealer answers with a justification whose Deal carries the
// commitments and a share (index 3) of an unrelated polynomial. The test FAILS when that
// justification is accepted and the deal becomes certified while verifier 1's share is not on
// the committed polynomial.

import (
	"testing"

	"go.dedis.ch/kyber/v4"
	"go.dedis.ch/kyber/v4/group/edwards25519"
	"go.dedis.ch/kyber/v4/share"
)

func TestGocvReplayF5(t *testing.T) {
	suite := edwards25519.NewBlakeSHA256Ed25519()
	n := 4
	thr := MinimumT(uint32(n))
	secs := make([]kyber.Scalar, n)
	pubs := make([]kyber.Point, n)
	for i := range secs {
		secs[i] = suite.Scalar().Pick(suite.RandomStream())
		pubs[i] = suite.Point().Mul(secs[i], nil)
	}
	dsec := suite.Scalar().Pick(suite.RandomStream())
	dpub := suite.Point().Mul(dsec, nil)
	dealer, err := NewDealer(suite, dsec, suite.Scalar().Pick(suite.RandomStream()), pubs, thr)
	if err != nil {
		t.Skip("setup failed: ", err)
	}
	verifiers := make([]*Verifier, n)
	for i := range verifiers {
		verifiers[i], err = NewVerifier(suite, secs[i], dpub, pubs)
		if err != nil {
			t.Skip("setup failed: ", err)
		}
	}
	// the dealer corrupts the share destined to verifier 1
	d1, _ := dealer.PlaintextDeal(1)
	d1.SecShare.V = suite.Scalar().Add(d1.SecShare.V, suite.Scalar().One())
	resps := make([]*Response, n)
	for i := range verifiers {
		ed, err := dealer.EncryptedDeal(i)
		if err != nil {
			t.Skip("setup failed: ", err)
		}
		resps[i], err = verifiers[i].ProcessEncryptedDeal(ed)
		if err != nil {
			t.Skip("setup failed: ", err)
		}
	}
	if resps[1].StatusApproved {
		t.Skip("verifier 1 did not complain; scenario not applicable")
	}
	for i := range verifiers {
		for j, r := range resps {
			if i == j {
				continue
			}
			if err := verifiers[i].ProcessResponse(r); err != nil {
				t.Skip("setup failed: ", err)
			}
		}
	}
	// forged justification: a consistent deal of an unrelated polynomial, for index 3
	other, err := NewDealer(suite, dsec, suite.Scalar().Pick(suite.RandomStream()), pubs, thr)
	if err != nil {
		t.Skip("setup failed: ", err)
	}
	od, _ := other.PlaintextDeal(3)
	forged := &Deal{SessionID: dealer.SessionID(), SecShare: od.SecShare, T: od.T, Commitments: od.Commitments}
	j := &Justification{SessionID: dealer.SessionID(), Index: 1, Deal: forged}
	accepted := 0
	for i := range verifiers {
		if err := verifiers[i].ProcessJustification(j); err == nil {
			accepted++
		}
	}
	if accepted == 0 {
		return // every verifier rejected the forged justification: property holds here
	}
	v1 := verifiers[1]
	certified := v1.DealCertified()
	deal := v1.Deal()
	onPoly := true
	if deal != nil {
		onPoly = share.NewPubPoly(suite, nil, v1.Commits()).Check(deal.SecShare)
	}
	if certified && !onPoly {
		t.Fatalf("REPRODUCED: forged justification accepted by %d verifiers; deal certified=%v although verifier 1's share is not on the committed polynomial", accepted, certified)
	}
	if accepted > 0 {
		t.Fatalf("REPRODUCED: forged justification (foreign commitments, share index 3 for complaint index 1) accepted by %d verifiers", accepted)
	}
}
