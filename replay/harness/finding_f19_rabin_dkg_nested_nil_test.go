package dkg

// Replay of finding F19 (C11, Rabin DKG): ProcessDeal, ProcessResponse and ProcessJustification hand the
// nested VSS message of a DKG message to the VSS layer without checking that it is there; a message
// taken from the network whose nested part is missing crashes the receiver instead of being rejected.
import "testing"

func gocvF19Recover(f func() error) (err error, p any) {
	defer func() { p = recover() }()
	return f(), nil
}

func TestGocvReplayF19(t *testing.T) {
	dkgs = dkgGen()
	if err, p := gocvF19Recover(func() error { _, err := dkgs[1].ProcessDeal(&Deal{Index: 0, Deal: nil}); return err }); p != nil {
		t.Errorf("GOCV-REPRODUCED a Deal without its encrypted deal crashes the receiver: %v", p)
	} else if err == nil {
		t.Errorf("GOCV-REPRODUCED a Deal without its encrypted deal is accepted")
	}
	fullExchange(t)
	if err, p := gocvF19Recover(func() error { _, err := dkgs[1].ProcessResponse(&Response{Index: 0, Response: nil}); return err }); p != nil {
		t.Errorf("GOCV-REPRODUCED a Response without its VSS response crashes the receiver: %v", p)
	} else if err == nil {
		t.Errorf("GOCV-REPRODUCED a Response without its VSS response is accepted")
	}
	if err, p := gocvF19Recover(func() error { return dkgs[1].ProcessJustification(&Justification{Index: 0, Justification: nil}) }); p != nil {
		t.Errorf("GOCV-REPRODUCED a Justification without its VSS justification crashes the receiver: %v", p)
	} else if err == nil {
		t.Errorf("GOCV-REPRODUCED a Justification without its VSS justification is accepted")
	}
}
