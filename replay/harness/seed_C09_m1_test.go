// place in: sign/tbls/
//go:build !constantTime

package tbls

import (
	"testing"

	"github.com/stretchr/testify/require"
	"go.dedis.ch/kyber/v4/pairing/bls12381/kilic"
	"go.dedis.ch/kyber/v4/share"
	"go.dedis.ch/kyber/v4/util/random"
)

// C09: from any t valid partial signatures, handed over alongside arbitrary
// invalid partials, Recover must return the group signature. Here an invalid
// partial that claims index k arrives before the honest partial of signer k,
// and there are exactly t honest partials in total.
func TestDemoC09RecoverWithForgedPartialBeforeHonestOne(t *testing.T) {
	msg := []byte("threshold message")
	suite := kilic.NewBLS12381Suite()
	for _, onG1 := range []bool{true, false} {
		keyGroup, scheme := suite.G2(), NewThresholdSchemeOnG1(suite)
		if !onG1 {
			keyGroup, scheme = suite.G1(), NewThresholdSchemeOnG2(suite)
		}
		n, th := uint32(5), uint32(3)
		secret := keyGroup.Scalar().Pick(random.New())
		priPoly := share.NewPriPoly(keyGroup, th, secret, random.New())
		pubPoly := priPoly.Commit(keyGroup.Point().Base())
		shares := priPoly.Shares(n)

		// the signature the group secret itself would produce
		want, err := scheme.Sign(&share.PriShare{I: 0, V: secret}, msg)
		require.NoError(t, err)
		want = want[2:]

		// honest partials of signers 4, 1, 3 (exactly th of them)
		var honest [][]byte
		for _, i := range []int{4, 1, 3} {
			sig, err := scheme.Sign(shares[i], msg)
			require.NoError(t, err)
			require.NoError(t, scheme.VerifyPartial(pubPoly, msg, sig))
			honest = append(honest, sig)
		}

		// a well-formed but wrong partial claiming to come from signer 1
		forged, err := scheme.Sign(&share.PriShare{I: 1, V: keyGroup.Scalar().Pick(random.New())}, msg)
		require.NoError(t, err)
		require.Error(t, scheme.VerifyPartial(pubPoly, msg, forged))

		for _, sigs := range [][][]byte{
			{honest[0], honest[1], forged, honest[2]}, // forged after the honest one
			{honest[0], forged, honest[1], honest[2]}, // forged before the honest one
			{forged, honest[2], honest[1], honest[0]},
		} {
			got, err := scheme.Recover(pubPoly, msg, sigs, th, n)
			require.NoError(t, err)
			require.Equal(t, want, got)
			require.NoError(t, scheme.VerifyRecovered(pubPoly.Commit(), msg, got))
		}

		// fewer than th honest partials are still refused
		_, err = scheme.Recover(pubPoly, msg, [][]byte{honest[0], forged, honest[2]}, th, n)
		require.Error(t, err)
	}
}
