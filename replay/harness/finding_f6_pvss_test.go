package pvss

// Replay for obligation share/pvss.VerifyDecShare::ensures:same_index (property C13: a decrypted
// share "swapped with another trustee's" must fail verification). The index field of a decrypted
// share is not bound to the encrypted share it answers: swapping the indices of two decrypted
// shares leaves both verifying, and RecoverSecret then returns a wrong secret commitment.

import (
	"testing"

	"go.dedis.ch/kyber/v4"
	"go.dedis.ch/kyber/v4/group/edwards25519"
)

func TestGocvReplayF6(t *testing.T) {
	suite := edwards25519.NewBlakeSHA256Ed25519()
	n, th := uint32(4), uint32(3)
	H := suite.Point().Pick(suite.XOF([]byte("H")))
	G := suite.Point().Base()
	x := make([]kyber.Scalar, n)
	X := make([]kyber.Point, n)
	for i := range x {
		x[i] = suite.Scalar().Pick(suite.RandomStream())
		X[i] = suite.Point().Mul(x[i], nil)
	}
	secret := suite.Scalar().Pick(suite.RandomStream())
	encShares, pubPoly, err := EncShares(suite, H, X, secret, th)
	if err != nil {
		t.Skip("setup failed: ", err)
	}
	sH := make([]kyber.Point, n)
	for i := range sH {
		sH[i] = pubPoly.Eval(encShares[i].S.I).V
	}
	gc, err := computeGlobalChallenge(suite, n, pubPoly, encShares)
	if err != nil {
		t.Skip("setup failed: ", err)
	}
	dec := make([]*PubVerShare, n)
	for i := range dec {
		dec[i], err = DecShare(suite, H, X[i], sH[i], x[i], gc, encShares[i])
		if err != nil {
			t.Skip("setup failed: ", err)
		}
	}
	want, err := RecoverSecret(suite, G, X, encShares, dec, th, n)
	if err != nil {
		t.Skip("setup failed: ", err)
	}
	// swap the index fields of decrypted shares 0 and 1
	dec[0].S.I, dec[1].S.I = dec[1].S.I, dec[0].S.I
	if err := VerifyDecShare(suite, G, X[0], encShares[0], dec[0]); err != nil {
		return // rejected: property holds on this input
	}
	got, err := RecoverSecret(suite, G, X, encShares, dec, th, n)
	if err == nil && !got.Equal(want) {
		t.Fatalf("REPRODUCED: decrypted shares with swapped indices verify and RecoverSecret silently returns a different secret commitment")
	}
	t.Fatalf("REPRODUCED: a decrypted share whose index differs from its encrypted share's index passes VerifyDecShare")
}
