// place in: sign/anon/
package anon

import (
	"bytes"
	"fmt"
	"testing"

	"go.dedis.ch/kyber/v4"
	"go.dedis.ch/kyber/v4/group/edwards25519"
	"go.dedis.ch/kyber/v4/group/p256"
	"go.dedis.ch/kyber/v4/pairing/bn256"
)

// Every member of the anonymity set, at every index, on every group the
// package accepts, must get the original message back.
func TestSeedC16AnonRoundTripAllGroupsAllIndices(t *testing.T) {
	suites := []struct {
		name  string
		suite Suite
	}{
		{"ed25519", edwards25519.NewBlakeSHA256Ed25519()},
		{"p256", p256.NewBlakeSHA256P256()},
		{"bn256-g1", bn256.NewSuiteG1()},
		{"bn256-g2", bn256.NewSuiteG2()},
	}
	msgs := [][]byte{{}, []byte("x"), []byte("Hello World!"), bytes.Repeat([]byte{0xa5}, 300)}

	for _, s := range suites {
		suite := s.suite
		for n := 1; n <= 6; n++ {
			for mine := 0; mine < n; mine++ {
				X := make([]kyber.Point, n)
				for i := range X {
					X[i] = suite.Point().Pick(suite.RandomStream())
				}
				x := suite.Scalar().Pick(suite.RandomStream())
				X[mine] = suite.Point().Mul(x, nil)

				for _, M := range msgs {
					C, err := Encrypt(suite, M, X)
					if err != nil {
						t.Fatalf("%s n=%d mine=%d: encrypt: %v", s.name, n, mine, err)
					}
					got, err := safeDecrypt(suite, C, X, mine, x)
					if err != nil {
						t.Errorf("%s n=%d mine=%d len=%d: decrypt with the right key failed: %v",
							s.name, n, mine, len(M), err)
						continue
					}
					if !bytes.Equal(got, M) {
						t.Errorf("%s n=%d mine=%d len=%d: wrong plaintext", s.name, n, mine, len(M))
					}
				}
			}
		}
	}
}

func safeDecrypt(suite Suite, c []byte, set Set, mine int, x kyber.Scalar) (m []byte, err error) {
	defer func() {
		if r := recover(); r != nil {
			err = fmt.Errorf("panic: %v", r)
		}
	}()
	return Decrypt(suite, c, set, mine, x)
}
