package xof

import (
	"bytes"
	"testing"

	"go.dedis.ch/kyber/v4"
)

// TestDemoC19M3XORKeyStreamConsumesExactlyLenSrc checks that XORKeyStream
// XORs, and consumes from the stream, exactly the bytes that Read would have
// returned for len(src) bytes, also when dst is longer than src, so that the
// output of an XOF is independent of how it is chunked into Read and
// XORKeyStream calls.
func TestDemoC19M3XORKeyStreamConsumesExactlyLenSrc(t *testing.T) {
	seeds := [][]byte{nil, []byte("key"), bytes.Repeat([]byte{0x5a}, 100)}
	for _, impl := range impls {
		for _, seed := range seeds {
			demoC19M3One(t, impl, seed)
		}
	}
}

func demoC19M3One(t *testing.T, f kyber.XOFFactory, seed []byte) {
	const nsrc, ndst, nnext = 5, 16, 32

	// reference: one contiguous read
	ref := make([]byte, nsrc+nnext)
	if _, err := f.XOF(seed).Read(ref); err != nil {
		t.Fatal(err)
	}

	x := f.XOF(seed)
	src := []byte("hello")
	dst := make([]byte, ndst) // longer than src
	x.XORKeyStream(dst, src)
	for i := 0; i < nsrc; i++ {
		if dst[i]^src[i] != ref[i] {
			t.Fatalf("%T seed %d: XORKeyStream byte %d is not the key stream byte Read returns", f, len(seed), i)
		}
	}
	if !bytes.Equal(dst[nsrc:], make([]byte, ndst-nsrc)) {
		t.Fatalf("%T seed %d: XORKeyStream wrote beyond len(src)", f, len(seed))
	}

	// the stream must have advanced by exactly len(src) bytes
	next := make([]byte, nnext)
	if _, err := x.Read(next); err != nil {
		t.Fatal(err)
	}
	if !bytes.Equal(next, ref[nsrc:]) {
		t.Fatalf("%T seed %d: after XORKeyStream of %d bytes into a %d byte dst the stream did not advance by exactly %d bytes",
			f, len(seed), nsrc, ndst, nsrc)
	}

	// two equally seeded XOFs that XOR the same src stay in step whatever len(dst)
	y := f.XOF(seed)
	y.XORKeyStream(make([]byte, nsrc), src)
	a, b := make([]byte, nnext), make([]byte, nnext)
	x2 := f.XOF(seed)
	x2.XORKeyStream(make([]byte, ndst), src)
	x2.Read(a)
	y.Read(b)
	if !bytes.Equal(a, b) {
		t.Fatalf("%T seed %d: key stream after XORKeyStream depends on len(dst)", f, len(seed))
	}
}
