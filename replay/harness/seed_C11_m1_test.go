// place in: share/dkg/pedersen/
package dkg

import (
	"testing"

	"github.com/stretchr/testify/require"

	"go.dedis.ch/kyber/v4/group/edwards25519"
	"go.dedis.ch/kyber/v4/sign/schnorr"
)

// A faulty dealer slips a deal addressed to a share holder index that does not
// exist in the group in the MIDDLE of its (otherwise perfectly valid) bundle.
// Every honest node must reach the same verdict about that dealer (they all see
// the same broadcast bundle), and therefore output the same QUAL / public key.
func TestDemoC11MisdirectedDealInMiddleOfBundle(t *testing.T) {
	n := uint32(5)
	thr := uint32(3)
	suite := edwards25519.NewBlakeSHA256Ed25519()
	tns := GenerateTestNodes(suite, n)
	list := NodesFromTest(tns)
	conf := Config{
		Suite:     suite,
		NewNodes:  list,
		Threshold: thr,
		Auth:      schnorr.NewScheme(suite),
	}
	SetupNodes(tns, &conf)

	var deals []*DealBundle
	for _, node := range tns {
		d, err := node.dkg.Deals()
		require.NoError(t, err)
		deals = append(deals, d)
	}

	// dealer 0 is faulty: its bundle holds the deals for 1,2,3,4 (all valid) and
	// one extra deal for the non-existing share holder 1000 placed between the
	// deals of node 2 and node 3.
	faulty := deals[0]
	require.Equal(t, Index(0), faulty.DealerIndex)
	require.Len(t, faulty.Deals, int(n-1))
	bogus := Deal{ShareIndex: 1000, EncryptedShare: []byte("nobody home")}
	var patched []Deal
	patched = append(patched, faulty.Deals[:2]...)
	patched = append(patched, bogus)
	patched = append(patched, faulty.Deals[2:]...)
	faulty.Deals = patched

	var respBundles []*ResponseBundle
	for _, node := range tns {
		resp, err := node.dkg.ProcessDeals(deals)
		require.NoError(t, err)
		if resp != nil {
			respBundles = append(respBundles, resp)
		}
	}

	// honest nodes are 1..4
	var justifs []*JustificationBundle
	results := make(map[uint32]*Result)
	for _, node := range tns {
		res, just, err := node.dkg.ProcessResponses(respBundles)
		if node.Index == 0 {
			continue
		}
		require.NoError(t, err)
		if res != nil {
			results[node.Index] = res
		}
		if just != nil {
			justifs = append(justifs, just)
		}
	}
	for _, node := range tns {
		if node.Index == 0 {
			continue
		}
		if _, done := results[node.Index]; done {
			continue
		}
		res, err := node.dkg.ProcessJustifications(justifs)
		require.NoError(t, err)
		require.NotNil(t, res)
		results[node.Index] = res
	}

	require.Len(t, results, int(n-1))
	ref := results[1]
	for idx, res := range results {
		require.True(t, ref.PublicEqual(res),
			"honest nodes 1 and %d disagree on QUAL / public polynomial: QUAL %v vs %v", idx, ref.QUAL, res.QUAL)
		require.True(t, ref.Key.Public().Equal(res.Key.Public()),
			"honest nodes 1 and %d disagree on the distributed public key", idx)
	}
	var honest []*Result
	for i := uint32(1); i < n; i++ {
		honest = append(honest, results[i])
	}
	testResults(t, suite, thr, n, honest)
}
