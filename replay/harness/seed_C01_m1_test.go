// place in: pairing/bn256/
//go:build !constantTime

package bn256

import (
	"testing"
)

// P + P must equal 2P in G1 no matter how the two operands are represented
// internally: here one operand is k*Base as produced by Mul (Jacobian, z != 1)
// and the other is the very same group element after a Marshal/Unmarshal
// round-trip (affine, z == 1).
func TestDemoC01G1AddSamePointDifferentRepresentation(t *testing.T) {
	g := NewSuiteG1()
	for _, k := range []int64{2, 3, 5, 1234567} {
		s := g.Scalar().SetInt64(k)
		p := g.Point().Mul(s, nil) // Jacobian representation of k*B

		buf, err := p.MarshalBinary()
		if err != nil {
			t.Fatal(err)
		}
		q := g.Point()
		if err := q.UnmarshalBinary(buf); err != nil {
			t.Fatal(err)
		}
		if !p.Equal(q) {
			t.Fatalf("k=%d: round-trip changed the point", k)
		}

		two := g.Scalar().SetInt64(2)
		want := g.Point().Mul(two, p)                       // 2*(kB)
		want2 := g.Point().Mul(g.Scalar().Mul(two, s), nil) // (2k)*B
		if !want.Equal(want2) {
			t.Fatalf("k=%d: 2*(kB) != (2k)B", k)
		}

		got := g.Point().Add(p, q)
		if !got.Equal(want) {
			t.Errorf("k=%d: P + P' != 2P (P' is P in affine form): got %v want %v", k, got, want)
		}
		got = g.Point().Add(q, p)
		if !got.Equal(want) {
			t.Errorf("k=%d: P' + P != 2P (P' is P in affine form): got %v want %v", k, got, want)
		}
		if got.Equal(g.Point().Null()) {
			t.Errorf("k=%d: P + P collapsed to the identity", k)
		}
	}
}
