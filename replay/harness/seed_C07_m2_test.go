// place in: share/
package share

import (
	"testing"

	"github.com/stretchr/testify/require"
	"go.dedis.ch/kyber/v4/group/edwards25519"
)

// Any t shares must reconstruct the secret, also for thresholds above 12.
func TestDemoC07RecoverSecretLargeThreshold(t *testing.T) {
	g := edwards25519.NewBlakeSHA256Ed25519()
	for _, c := range []struct{ t, n uint32 }{{5, 8}, {12, 12}, {13, 13}, {13, 16}, {16, 20}, {24, 24}} {
		secret := g.Scalar().Pick(g.RandomStream())
		poly := NewPriPoly(g, c.t, secret, g.RandomStream())
		shares := poly.Shares(c.n)

		// all shares present (the t lowest indices are used)
		got, err := RecoverSecret(g, shares, c.t, c.n)
		require.NoError(t, err)
		require.Truef(t, got.Equal(secret), "t=%d n=%d: all shares", c.t, c.n)

		// only the t highest indices present, in reverse order, rest nil
		sub := make([]*PriShare, c.n)
		for k := uint32(0); k < c.t; k++ {
			sub[k] = shares[c.n-1-k]
		}
		got, err = RecoverSecret(g, sub, c.t, c.n)
		require.NoError(t, err)
		require.Truef(t, got.Equal(secret), "t=%d n=%d: top-t shares reversed", c.t, c.n)

		// result must agree with the full polynomial reconstruction
		pp, err := RecoverPriPoly(g, shares, c.t, c.n)
		require.NoError(t, err)
		require.Truef(t, pp.Secret().Equal(got), "t=%d n=%d: RecoverPriPoly vs RecoverSecret", c.t, c.n)
	}
}
