// place in: group/mod/
//
// C05 demo: Int.Neg must leave the receiver equal to -a for every operand a,
// whether or not the receiver is the operand itself and whatever the receiver
// held before the call.

package mod

import (
	"testing"

	"go.dedis.ch/kyber/v4/compatible/compatiblemod"
)

func TestSeedC05NegOverwritesReceiver(t *testing.T) {
	m := compatiblemod.NewInt(1000003)

	for _, v := range []int64{0, 1, 2, 1000002} {
		a := NewInt64(v, m)

		// Reference: negate in place on a private copy (receiver == operand).
		want := a.Clone()
		want.Neg(want)

		// Same operation into a receiver that already holds another value.
		r := NewInt64(5, m)
		ret := r.Neg(a)

		if !r.Equal(want) {
			t.Errorf("r.Neg(%d): receiver holds %v, want %v", v, r, want)
		}
		if !ret.Equal(r) {
			t.Errorf("r.Neg(%d): returned value %v differs from receiver %v", v, ret, r)
		}
		if !a.Equal(NewInt64(v, m)) {
			t.Errorf("r.Neg(%d): operand was modified to %v", v, a)
		}

		// x + (-x) must be zero when -x is produced in a reused temporary.
		sum := NewInt64(0, m)
		sum.Add(a, r)
		if sum.Nonzero() {
			t.Errorf("%d + r.Neg(%d) = %v, want 0", v, v, sum)
		}
	}

	// A multi-step sequence: an accumulator that reaches zero, negated
	// into a scratch variable that was used earlier in the computation.
	acc := NewInt64(42, m)
	tmp := NewInt64(0, m)
	tmp.Mul(acc, acc) // scratch now non-zero
	acc.Sub(acc, acc) // acc == 0
	tmp.Neg(acc)      // tmp must become 0
	if tmp.Nonzero() {
		t.Errorf("tmp.Neg(0) left stale value %v in receiver", tmp)
	}
}
