// place in: share/vss/pedersen/
//
// C10 demo: a deal is certified only if at least t distinct verifiers approved
// *this* deal. Approvals that the same verifiers signed for another run of the
// protocol (same dealer key, same verifier set, different polynomial) must be
// rejected when they are replayed, and must never count towards certification.
package vss_test

import (
	"testing"

	"go.dedis.ch/kyber/v4"
	"go.dedis.ch/kyber/v4/group/edwards25519"
	vss "go.dedis.ch/kyber/v4/share/vss/pedersen"
)

func TestC10DemoReplayedApprovalsFromOtherSession(t *testing.T) {
	suite := edwards25519.NewBlakeSHA256Ed25519()
	const n = 4
	const thr = 3

	secs := make([]kyber.Scalar, n)
	pubs := make([]kyber.Point, n)
	for i := range secs {
		secs[i] = suite.Scalar().Pick(suite.RandomStream())
		pubs[i] = suite.Point().Mul(secs[i], nil)
	}
	dealerSec := suite.Scalar().Pick(suite.RandomStream())
	dealerPub := suite.Point().Mul(dealerSec, nil)

	newSession := func() (*vss.Dealer, []*vss.Verifier) {
		secret := suite.Scalar().Pick(suite.RandomStream())
		d, err := vss.NewDealer(suite, dealerSec, secret, pubs, thr)
		if err != nil {
			t.Fatal(err)
		}
		vs := make([]*vss.Verifier, n)
		for i := range vs {
			vs[i], err = vss.NewVerifier(suite, secs[i], dealerPub, pubs)
			if err != nil {
				t.Fatal(err)
			}
		}
		return d, vs
	}

	// Session A: fully honest run, every verifier approves.
	dealerA, verifiersA := newSession()
	respA := make([]*vss.Response, n)
	for i, v := range verifiersA {
		enc, err := dealerA.EncryptedDeal(i)
		if err != nil {
			t.Fatal(err)
		}
		respA[i], err = v.ProcessEncryptedDeal(enc)
		if err != nil {
			t.Fatal(err)
		}
		if !respA[i].StatusApproved {
			t.Fatalf("session A: verifier %d should approve", i)
		}
	}

	// Session B: only verifiers 0 and 1 ever receive (and approve) their deal;
	// verifiers 2 and 3 never see anything of this run. 2 approvals < t = 3.
	dealerB, verifiersB := newSession()
	respB := make([]*vss.Response, 2)
	for i := 0; i < 2; i++ {
		enc, err := dealerB.EncryptedDeal(i)
		if err != nil {
			t.Fatal(err)
		}
		respB[i], err = verifiersB[i].ProcessEncryptedDeal(enc)
		if err != nil {
			t.Fatal(err)
		}
		if !respB[i].StatusApproved {
			t.Fatalf("session B: verifier %d should approve", i)
		}
	}
	for _, r := range respB {
		for i := 0; i < 2; i++ {
			if uint32(i) == r.Index {
				continue
			}
			rc := *r
			if err := verifiersB[i].ProcessResponse(&rc); err != nil {
				t.Fatal(err)
			}
		}
		rc := *r
		if _, err := dealerB.ProcessResponse(&rc); err != nil {
			t.Fatal(err)
		}
	}

	// Replay the session-A approvals of verifiers 2 and 3 into session B.
	for _, idx := range []int{2, 3} {
		for i := 0; i < 2; i++ {
			rc := *respA[idx]
			if err := verifiersB[i].ProcessResponse(&rc); err == nil {
				t.Errorf("session B verifier %d accepted verifier %d's approval of session A", i, idx)
			}
		}
		rc := *respA[idx]
		if _, err := dealerB.ProcessResponse(&rc); err == nil {
			t.Errorf("session B dealer accepted verifier %d's approval of session A", idx)
		}
	}

	check := func(when string) {
		for i := 0; i < 2; i++ {
			if verifiersB[i].DealCertified() {
				t.Errorf("%s: session B verifier %d reports the deal certified with only 2 < t approvals", when, i)
			}
			if verifiersB[i].Deal() != nil {
				t.Errorf("%s: session B verifier %d releases its deal", when, i)
			}
		}
		if dealerB.DealCertified() {
			t.Errorf("%s: session B dealer reports the deal certified with only 2 < t approvals", when)
		}
		if dealerB.SecretCommit() != nil {
			t.Errorf("%s: session B dealer publishes its secret commitment", when)
		}
	}
	check("before timeout")
	for i := 0; i < 2; i++ {
		verifiersB[i].SetTimeout()
	}
	dealerB.SetTimeout()
	check("after timeout")
}
