// place in: group/p256/
//go:build !constantTime

package p256

import (
	"math/big"
	"testing"
)

// A DSA-style residue group with cofactor R > 2: P = Q*R + 1 = 11*6 + 1 = 67.
// Its points are the order-11 subgroup of Z_67^*. UnmarshalBinary must accept
// exactly the members of that subgroup: every other byte string (0, values
// >= P, non-residues, and quadratic residues that are NOT of order dividing Q)
// has to be rejected with an error.
func TestC04ResidueDecodeOnlySubgroupMembers(t *testing.T) {
	p := big.NewInt(67)
	q := big.NewInt(11)
	r := big.NewInt(6)
	gen := big.NewInt(64) // 2^6 mod 67, has order 11

	g := new(ResidueGroup)
	g.SetParams(p, q, r, gen)

	accepted := 0
	for v := 0; v < 256; v++ {
		x := big.NewInt(int64(v))
		member := v > 0 && x.Cmp(p) < 0 &&
			new(big.Int).Exp(x, q, p).Cmp(big.NewInt(1)) == 0

		pt := g.Point()
		err := pt.UnmarshalBinary([]byte{byte(v)})
		if member && err != nil {
			t.Fatalf("subgroup member %d rejected: %v", v, err)
		}
		if !member && err == nil {
			t.Fatalf("byte 0x%02x (%d) accepted although it is not in the order-%v subgroup mod %v",
				v, v, q, p)
		}
		if err != nil {
			continue
		}
		accepted++

		// An accepted point must really have order dividing Q ...
		acc := g.Point().Null()
		for i := 0; i < 11; i++ {
			acc = g.Point().Add(acc, pt)
		}
		if !acc.Equal(g.Point().Null()) {
			t.Fatalf("accepted point %d does not have order dividing Q", v)
		}
		// ... and must round-trip.
		enc, err := pt.MarshalBinary()
		if err != nil {
			t.Fatal(err)
		}
		pt2 := g.Point()
		if err := pt2.UnmarshalBinary(enc); err != nil || !pt2.Equal(pt) {
			t.Fatalf("re-decoding accepted point %d failed: %v", v, err)
		}
	}
	if accepted != 11 {
		t.Fatalf("expected exactly 11 accepted encodings, got %d", accepted)
	}
}
