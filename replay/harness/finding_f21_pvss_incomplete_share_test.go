package pvss

// Replay of finding F21 (C13, PVSS): VerifyEncShare(Batch) and VerifyDecShare(Batch) call methods on the
// value of a share and on the parts of its DLEQ proof without checking that they are there. One party
// publishing a share with a missing part crashes every verifier instead of having its share filtered out.
import (
	"testing"

	"go.dedis.ch/kyber/v4/proof/dleq"
)

func gocvF21Recover(f func() error) (err error, p any) {
	defer func() { p = recover() }()
	return f(), nil
}

func TestGocvReplayF21(t *testing.T) {
	conf := getConfig(5, 3)
	secret := conf.suite.Scalar().Pick(conf.suite.RandomStream())
	pubPoly, encShares, sH, err := EncryptAndShare(conf, secret)
	if err != nil {
		t.Fatal(err)
	}
	gc, err := computeGlobalChallenge(conf.suite, 5, pubPoly, encShares)
	if err != nil {
		t.Fatal(err)
	}
	// party 1 publishes an encrypted share whose proof lacks the challenge
	bad := *encShares[1]
	bad.P = dleq.Proof{C: nil, R: bad.P.R, VG: bad.P.VG, VH: bad.P.VH}
	if err, p := gocvF21Recover(func() error { return VerifyEncShare(conf.suite, conf.H, conf.X[1], sH[1], gc, &bad) }); p != nil {
		t.Errorf("GOCV-REPRODUCED an encrypted share whose proof lacks the challenge crashes VerifyEncShare: %v", p)
	} else if err == nil {
		t.Errorf("GOCV-REPRODUCED an encrypted share whose proof lacks the challenge is accepted")
	}
	// ... or lacks the response (challenge equal to the expected one)
	bad2 := *encShares[1]
	bad2.P = dleq.Proof{C: bad2.P.C, R: nil, VG: bad2.P.VG, VH: bad2.P.VH}
	shares := append([]*PubVerShare{}, encShares...)
	shares[1] = &bad2
	var kept int
	if _, p := gocvF21Recover(func() error {
		_, E, err := VerifyEncShareBatch(conf.suite, conf.H, conf.X, sH, pubPoly, shares)
		kept = len(E)
		return err
	}); p != nil {
		t.Errorf("GOCV-REPRODUCED one encrypted share without a response crashes VerifyEncShareBatch: %v", p)
	} else if kept != 4 {
		t.Errorf("GOCV-REPRODUCED VerifyEncShareBatch kept %d shares, want the 4 well-formed ones", kept)
	}
	// ... or lacks a commitment, which the global challenge hashes before any share is verified
	for _, which := range []string{"VG", "VH", "V"} {
		bad3 := *encShares[1]
		switch which {
		case "VG":
			bad3.P = dleq.Proof{C: bad3.P.C, R: bad3.P.R, VG: nil, VH: bad3.P.VH}
		case "VH":
			bad3.P = dleq.Proof{C: bad3.P.C, R: bad3.P.R, VG: bad3.P.VG, VH: nil}
		default:
			bad3.S.V = nil
		}
		shares3 := append([]*PubVerShare{}, encShares...)
		shares3[1] = &bad3
		if err, p := gocvF21Recover(func() error {
			_, _, err := VerifyEncShareBatch(conf.suite, conf.H, conf.X, sH, pubPoly, shares3)
			return err
		}); p != nil {
			t.Errorf("GOCV-REPRODUCED one encrypted share without %s crashes the global challenge computation: %v", which, p)
		} else if err == nil {
			t.Errorf("GOCV-REPRODUCED a batch with a share lacking %s yields a global challenge", which)
		}
	}
	// a decrypted share whose proof lacks a commitment
	G := conf.suite.Point().Base()
	ds, err := DecShare(conf.suite, conf.H, conf.X[2], sH[2], conf.x[2], gc, encShares[2])
	if err != nil {
		t.Fatal(err)
	}
	badD := *ds
	badD.P = dleq.Proof{C: badD.P.C, R: badD.P.R, VG: nil, VH: badD.P.VH}
	if err, p := gocvF21Recover(func() error { return VerifyDecShare(conf.suite, G, conf.X[2], encShares[2], &badD) }); p != nil {
		t.Errorf("GOCV-REPRODUCED a decrypted share whose proof lacks a commitment crashes VerifyDecShare: %v", p)
	} else if err == nil {
		t.Errorf("GOCV-REPRODUCED a decrypted share whose proof lacks a commitment is accepted")
	}
}
