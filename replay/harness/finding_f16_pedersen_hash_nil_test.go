package dkg

// Replay of finding F16 (C11, Pedersen DKG): VerifyPacketSignature hashes every incoming packet before
// its signature can be checked; DealBundle.Hash calls MarshalBinary on every public coefficient and
// JustificationBundle.Hash on every share without checking them, so an unauthenticated packet with a nil
// coefficient or a justification without a share crashes the receiver instead of being rejected.
import (
	"testing"

	"go.dedis.ch/kyber/v4"
	"go.dedis.ch/kyber/v4/group/edwards25519"
	"go.dedis.ch/kyber/v4/sign/schnorr"
)

func gocvF16Recover(f func() error) (err error, p any) {
	defer func() { p = recover() }()
	return f(), nil
}

func TestGocvReplayF16(t *testing.T) {
	suite := edwards25519.NewBlakeSHA256Ed25519()
	tns := GenerateTestNodes(suite, 5)
	conf := Config{Suite: suite, NewNodes: NodesFromTest(tns), Threshold: 4, Auth: schnorr.NewScheme(suite)}
	SetupNodes(tns, &conf)
	c := tns[1].dkg.c

	db := &DealBundle{DealerIndex: 0, Public: []kyber.Point{suite.Point().Base(), nil}, SessionID: c.Nonce, Signature: []byte("not a signature")}
	if err, p := gocvF16Recover(func() error { return VerifyPacketSignature(c, db) }); p != nil {
		t.Errorf("GOCV-REPRODUCED unauthenticated DealBundle with a nil public coefficient crashes VerifyPacketSignature: %v", p)
	} else if err == nil {
		t.Errorf("GOCV-REPRODUCED unauthenticated DealBundle with a nil public coefficient is accepted")
	}

	jb := &JustificationBundle{DealerIndex: 0, Justifications: []Justification{{ShareIndex: 1, Share: nil}}, SessionID: c.Nonce, Signature: []byte("not a signature")}
	if err, p := gocvF16Recover(func() error { return VerifyPacketSignature(c, jb) }); p != nil {
		t.Errorf("GOCV-REPRODUCED unauthenticated JustificationBundle without a share crashes VerifyPacketSignature: %v", p)
	} else if err == nil {
		t.Errorf("GOCV-REPRODUCED unauthenticated JustificationBundle without a share is accepted")
	}
}
