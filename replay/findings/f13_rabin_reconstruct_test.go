package dkg

// Replay of finding F13 (C11, Rabin DKG): ProcessReconstructCommits crashes on input from the network.
//  (a) a ReconstructCommits message without a share makes Hash dereference nil before the signature is
//      even looked at;
//  (b) one participant who labels its share with the index of another participant's share makes
//      share.RecoverPriPoly fail once t messages are collected; the error is ignored and the nil
//      polynomial is dereferenced, so every honest node that reaches the threshold panics.
import (
	"testing"

	"go.dedis.ch/kyber/v4/share"
	"go.dedis.ch/kyber/v4/sign/schnorr"
)

func gocvF13Recover(f func()) (panicked any) {
	defer func() { panicked = recover() }()
	f()
	return nil
}

func TestGocvReplayF13(t *testing.T) {
	fullExchange(t)
	victim := dkgs[2]
	delete(victim.commitments, uint32(0)) // dealer 0's commitments were invalidated by a complaint

	// (a) message without a share
	if p := gocvF13Recover(func() {
		_ = victim.ProcessReconstructCommits(&ReconstructCommits{Index: 1, DealerIndex: 0})
	}); p != nil {
		t.Errorf("GOCV-REPRODUCED (a) ReconstructCommits without a share crashes the receiver: %v", p)
	}

	// (b) participant 1 labels its share with participant 3's share index
	mk := func(from *DistKeyGenerator, shareIdx uint32) *ReconstructCommits {
		d := from.verifiers[uint32(0)].Deal()
		rc := &ReconstructCommits{
			SessionID:   d.SessionID,
			Index:       from.index,
			DealerIndex: 0,
			Share:       &share.PriShare{I: shareIdx, V: d.SecShare.V},
		}
		rc.Signature, _ = schnorr.Sign(suite, from.long, rc.Hash(suite))
		return rc
	}
	if p := gocvF13Recover(func() {
		_ = victim.ProcessReconstructCommits(mk(dkgs[1], 3)) // the misbehaving participant
		for _, honest := range dkgs[3:] {
			if victim.reconstructed[uint32(0)] {
				break
			}
			_ = victim.ProcessReconstructCommits(mk(honest, honest.index))
		}
	}); p != nil {
		t.Errorf("GOCV-REPRODUCED (b) a duplicated share index makes the t-th reconstruct message crash the receiver: %v", p)
	}
}
