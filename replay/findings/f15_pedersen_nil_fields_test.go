package dkg

// Replay of finding F15 (C11, Pedersen DKG): ProcessDeals builds and evaluates a public polynomial from
// the coefficients of an incoming deal bundle without checking them, and ProcessJustifications multiplies
// the base point by the share of an incoming justification without checking it. A bundle with a nil
// coefficient resp. a justification without a share crashes every receiver instead of evicting the dealer.
import (
	"slices"
	"testing"

	"go.dedis.ch/kyber/v4"
	"go.dedis.ch/kyber/v4/group/edwards25519"
	"go.dedis.ch/kyber/v4/sign/schnorr"
)

func gocvF15Recover(f func()) (p any) {
	defer func() { p = recover() }()
	f()
	return nil
}

func gocvF15Nodes() ([]*TestNode, []*DealBundle, error) {
	suite := edwards25519.NewBlakeSHA256Ed25519()
	tns := GenerateTestNodes(suite, 5)
	conf := Config{Suite: suite, NewNodes: NodesFromTest(tns), Threshold: 4, Auth: schnorr.NewScheme(suite)}
	SetupNodes(tns, &conf)
	var deals []*DealBundle
	for _, node := range tns {
		d, err := node.dkg.Deals()
		if err != nil {
			return nil, nil, err
		}
		deals = append(deals, d)
	}
	return tns, deals, nil
}

func TestGocvReplayF15(t *testing.T) {
	// 1. dealer 0 publishes a public polynomial with a nil coefficient
	tns, deals, err := gocvF15Nodes()
	if err != nil {
		t.Fatal(err)
	}
	bad := *deals[0]
	bad.Public = append([]kyber.Point{}, deals[0].Public...)
	bad.Public[1] = nil
	deals[0] = &bad
	if p := gocvF15Recover(func() { _, _ = tns[2].dkg.ProcessDeals(deals) }); p != nil {
		t.Errorf("GOCV-REPRODUCED ProcessDeals crashes on a deal bundle with a nil public coefficient: %v", p)
	} else if !slices.Contains(tns[2].dkg.evicted, 0) {
		t.Errorf("GOCV-REPRODUCED dealer of a nil public coefficient is not evicted")
	}

	// 2. dealer 0 gives node 1 a bad share, is complained about, and answers with a justification without a share
	tns, deals, err = gocvF15Nodes()
	if err != nil {
		t.Fatal(err)
	}
	for i := range deals[0].Deals {
		if deals[0].Deals[i].ShareIndex == 1 {
			enc := append([]byte{}, deals[0].Deals[i].EncryptedShare...)
			enc[len(enc)-1] ^= 1
			deals[0].Deals[i].EncryptedShare = enc
		}
	}
	var resps []*ResponseBundle
	for _, node := range tns {
		r, err := node.dkg.ProcessDeals(deals)
		if err != nil {
			t.Fatal(err)
		}
		if r != nil {
			resps = append(resps, r)
		}
	}
	var justifs []*JustificationBundle
	for _, node := range tns {
		_, j, _ := node.dkg.ProcessResponses(resps)
		if j != nil {
			justifs = append(justifs, j)
		}
	}
	if len(justifs) != 1 || justifs[0].DealerIndex != 0 || len(justifs[0].Justifications) == 0 {
		t.Fatalf("setup: expected exactly one justification bundle from dealer 0, got %d", len(justifs))
	}
	for i := range justifs[0].Justifications {
		justifs[0].Justifications[i].Share = nil
	}
	if p := gocvF15Recover(func() { _, _ = tns[1].dkg.ProcessJustifications(justifs) }); p != nil {
		t.Errorf("GOCV-REPRODUCED ProcessJustifications crashes on a justification without a share: %v", p)
	} else if !slices.Contains(tns[1].dkg.evicted, 0) {
		t.Errorf("GOCV-REPRODUCED dealer of a justification without a share is not evicted")
	}
}
