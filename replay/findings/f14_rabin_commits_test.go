package dkg

// Replay of finding F14 (C11, Rabin DKG): ProcessSecretCommits and ProcessComplaintCommits hash the
// incoming message before its signature is checked; a message with a nil commitment resp. without a
// deal makes the hash computation dereference nil, so an unauthenticated message crashes the receiver.
import (
	"testing"

	"go.dedis.ch/kyber/v4"
	vss "go.dedis.ch/kyber/v4/share/vss/rabin"
)

func TestGocvReplayF14(t *testing.T) {
	fullExchange(t)
	victim := dkgs[2]
	sid := victim.verifiers[uint32(0)].SessionID()

	if p := gocvF14Recover(func() {
		_, _ = victim.ProcessSecretCommits(&SecretCommits{
			Index:       0,
			Commitments: []kyber.Point{nil, nil, nil, nil},
			SessionID:   sid,
			Signature:   []byte("not a signature"),
		})
	}); p != nil {
		t.Errorf("GOCV-REPRODUCED unauthenticated SecretCommits with a nil commitment crashes the receiver: %v", p)
	}

	if p := gocvF14Recover(func() {
		_, _ = victim.ProcessComplaintCommits(&ComplaintCommits{
			Index:       1,
			DealerIndex: 0,
			Deal:        nil,
			Signature:   []byte("not a signature"),
		})
	}); p != nil {
		t.Errorf("GOCV-REPRODUCED unauthenticated ComplaintCommits without a deal crashes the receiver: %v", p)
	}
}

// (c) a complaint whose deal has no shares: hashing the message already dereferences the missing share
func TestGocvReplayF14EmptyDeal(t *testing.T) {
	fullExchange(t)
	victim := dkgs[2]
	cc := &ComplaintCommits{Index: 1, DealerIndex: 0, Deal: &vss.Deal{T: 4}, Signature: []byte("not a signature")}
	if p := gocvF14Recover(func() { _, _ = victim.ProcessComplaintCommits(cc) }); p != nil {
		t.Errorf("GOCV-REPRODUCED unauthenticated ComplaintCommits with a deal lacking its shares crashes the receiver: %v", p)
	}
}

func gocvF14Recover(f func()) (panicked any) {
	defer func() { panicked = recover() }()
	f()
	return nil
}
