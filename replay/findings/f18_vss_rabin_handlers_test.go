package vss

// Replay of finding F18 (C10, Rabin VSS): the verifier's handlers of network messages crash instead of
// answering with an error: a response or a justification that arrives before the deal (the verifier has
// no aggregator yet), an encrypted deal without a Diffie-Hellman key, and a justification whose deal
// lacks one of its shares (which must mark the dealer bad). The exported aggregator check VerifyDeal is
// reached through ProcessJustification.
import (
	"testing"

	"go.dedis.ch/kyber/v4/share"
)

// a fresh aggregator over the same verifier set (VerifyDeal adopts the deal it is given first)
func NewEmptyAggregatorForReplay(v *Verifier) *aggregator {
	return newAggregator(v.suite, v.dealer, v.verifiers, nil, 0, nil)
}

func gocvF18Recover(f func() error) (err error, p any) {
	defer func() { p = recover() }()
	return f(), nil
}

func TestGocvReplayF18(t *testing.T) {
	dealer, verifiers := genAll()
	encs, _ := dealer.EncryptedDeals()
	if err, p := gocvF18Recover(func() error {
		return verifiers[1].ProcessResponse(&Response{SessionID: dealer.sessionID, Index: 0, Approved: true})
	}); p != nil {
		t.Errorf("GOCV-REPRODUCED a response arriving before the deal crashes the verifier: %v", p)
	} else if err == nil {
		t.Errorf("GOCV-REPRODUCED a response arriving before the deal is accepted")
	}
	if err, p := gocvF18Recover(func() error {
		return verifiers[1].ProcessJustification(&Justification{SessionID: dealer.sessionID, Index: 0})
	}); p != nil {
		t.Errorf("GOCV-REPRODUCED a justification arriving before the deal crashes the verifier: %v", p)
	} else if err == nil {
		t.Errorf("GOCV-REPRODUCED a justification arriving before the deal is accepted")
	}
	if err, p := gocvF18Recover(func() error {
		_, err := verifiers[1].ProcessEncryptedDeal(&EncryptedDeal{Signature: encs[1].Signature, Cipher: encs[1].Cipher})
		return err
	}); p != nil {
		t.Errorf("GOCV-REPRODUCED an encrypted deal without a DH key crashes the verifier: %v", p)
	} else if err == nil {
		t.Errorf("GOCV-REPRODUCED an encrypted deal without a DH key is accepted")
	}

	if _, err := verifiers[1].ProcessEncryptedDeal(encs[1]); err != nil {
		t.Fatal(err)
	}
	// verifier 2 gets a bad deal and complains; the dealer answers with a deal lacking the random share
	dealer.deals[2].RndShare.V = suite.Scalar().Zero()
	encs2, _ := dealer.EncryptedDeals()
	r2, err := verifiers[2].ProcessEncryptedDeal(encs2[2])
	if err != nil || r2.Approved {
		t.Fatalf("setup: %v %v", err, r2)
	}
	if err := verifiers[1].ProcessResponse(r2); err != nil {
		t.Fatal(err)
	}
	dv := *dealer.deals[2]
	dv.RndShare = &share.PriShare{I: 2, V: nil}
	if _, p := gocvF18Recover(func() error {
		return NewEmptyAggregatorForReplay(verifiers[1]).VerifyDeal(&dv, false)
	}); p != nil {
		t.Errorf("GOCV-REPRODUCED VerifyDeal crashes on a deal whose random share has no value: %v", p)
	}
	d := *dealer.deals[2]
	d.RndShare = nil
	if err, p := gocvF18Recover(func() error {
		return verifiers[1].ProcessJustification(&Justification{SessionID: dealer.sessionID, Index: 2, Deal: &d})
	}); p != nil {
		t.Errorf("GOCV-REPRODUCED a justification whose deal lacks the random share crashes the verifier: %v", p)
	} else if err == nil || !verifiers[1].badDealer {
		t.Errorf("GOCV-REPRODUCED a justification whose deal lacks the random share does not mark the dealer bad (err=%v)", err)
	}
}
